//! zv — bounded symbolic checking harnesses for infinilabs/zipora (see /verif/DESIGN.md).
//! Every harness is a `#[kani::proof]` under Kani and an ordinary `#[test]` natively
//! (driven by `$ZV_REPLAY`), declared through `zv_harness!`.
#![allow(unused_imports, dead_code, clippy::all)]
// the allocator-model stub of C08 names `std::alloc::Global` (Kani toolchain is a nightly)
#![cfg_attr(kani, feature(allocator_api))]

#[macro_export]
macro_rules! zcover {
    ($($t:tt)*) => {
        #[cfg(kani)]
        kani::cover!($($t)*);
    };
}

pub mod common;

/// Declares one harness. Metadata fields are literals that `run/check.py` reads from the
/// source text; `unwind` and `stubs` become Kani attributes.
#[macro_export]
macro_rules! zv_harness {
    (
        name: $name:ident,
        prop: $prop:literal,
        tier: $tier:ident,
        unwind: $unwind:literal,
        stubs: [ $( $from:ty => $to:path ),* $(,)? ],
        targets: $targets:literal,
        bounds: $bounds:literal,
        oracle: $oracle:literal,
        $( flags: [ $( $flag:ident ),* $(,)? ], )?
        $( kf: $kf:literal, )?
        $( cap: $cap:literal, )?
        $( cbmc: $cbmc:literal, )?
        body: $body:block
    ) => {
        #[cfg_attr(kani, kani::proof)]
        #[cfg_attr(kani, kani::unwind($unwind))]
        $( #[cfg_attr(kani, kani::stub($from, $to))] )*
        #[cfg_attr(not(kani), test)]
        pub fn $name() $body
    };
}

#[cfg(feature = "p_c13")]
pub mod c13_serial;
#[cfg(feature = "p_c20")]
pub mod c20_numeric;
pub mod kf;
#[cfg(feature = "p_c08")]
pub mod c08_concurrent;
#[cfg(feature = "p_c16")]
pub mod c16_tokens;
#[cfg(feature = "p_c18")]
pub mod c18_tasks;
#[cfg(feature = "p_c07")]
pub mod c07_pools;
#[cfg(feature = "p_c03")]
pub mod c03_blobstore;
#[cfg(feature = "p_c09")]
pub mod c09_intvec;
#[cfg(feature = "p_c19")]
pub mod c19_files;
#[cfg(feature = "p_c05")]
pub mod c05_trie;
#[cfg(feature = "p_c06")]
pub mod c06_hashmap;
#[cfg(feature = "p_c17")]
pub mod c17_cache;
#[cfg(feature = "p_c15")]
pub mod c15_parsers;
#[cfg(feature = "p_c20")]
pub mod c20_strings;
#[cfg(feature = "p_c01")]
pub mod c01_entropy;
#[cfg(feature = "p_c02")]
pub mod c02_compress;
#[cfg(feature = "p_c10")]
pub mod c10_vecs;
#[cfg(feature = "p_c11")]
pub mod c11_sorts;
#[cfg(feature = "p_c12")]
pub mod c12_suffix;
#[cfg(feature = "p_c04")]
pub mod c04_rankselect;
#[cfg(feature = "p_c14")]
pub mod c14_accel;

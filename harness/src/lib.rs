//! zv — bounded symbolic checking harnesses for infinilabs/zipora (see /verif/DESIGN.md).
//! Every harness is a `#[kani::proof]` under Kani and an ordinary `#[test]` natively
//! (driven by `$ZV_REPLAY`), declared through `zv_harness!`.
#![allow(unused_imports, dead_code, clippy::all)]

#[macro_export]
macro_rules! zcover {
    ($($t:tt)*) => {
        #[cfg(kani)]
        kani::cover!($($t)*);
    };
}

pub mod common;

/// Declares one harness. Metadata fields are literals that `run/check.py` reads from the
/// source text; `unwind` and `stubs` become Kani attributes.
#[macro_export]
macro_rules! zv_harness {
    (
        name: $name:ident,
        prop: $prop:literal,
        tier: $tier:ident,
        unwind: $unwind:literal,
        stubs: [ $( $from:path => $to:path ),* $(,)? ],
        targets: $targets:literal,
        bounds: $bounds:literal,
        oracle: $oracle:literal,
        $( flags: [ $( $flag:ident ),* $(,)? ], )?
        $( kf: $kf:literal, )?
        $( cap: $cap:literal, )?
        $( cbmc: $cbmc:literal, )?
        body: $body:block
    ) => {
        #[cfg_attr(kani, kani::proof)]
        #[cfg_attr(kani, kani::unwind($unwind))]
        $( #[cfg_attr(kani, kani::stub($from, $to))] )*
        #[cfg_attr(not(kani), test)]
        pub fn $name() $body
    };
}

pub mod c13_serial;
pub mod c20_numeric;
pub mod kf;
pub mod c08_concurrent;
pub mod c16_tokens;
pub mod c18_tasks;
pub mod c07_pools;
pub mod c03_blobstore;
pub mod c09_intvec;
pub mod c19_files;
pub mod c05_trie;
pub mod c06_hashmap;
pub mod c17_cache;

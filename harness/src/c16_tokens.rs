//! C16 — version tokens: one writer at a time, nothing reclaimed while still visible.
//! Interleavings: nested interference at the schedule points 401/402 (acquire_writer_token),
//! 411 (acquire_reader_token) and 421..423 (try_advance_min_version), see DESIGN.md section 3.
use crate::common::*;
use zipora::fsa::version_sync::{ConcurrencyLevel, LazyFreeItem, LazyFreeList, ReaderToken, VersionManager, WriterToken};
use zipora::verif_hooks::{clear_sched_hook, set_sched_hook};

struct Vs {
    mgr: *const VersionManager,
    k: u32,
    fired: bool,
    b_ops: u32,
    b_writers: [Option<WriterToken>; 2],
    b_readers: [Option<ReaderToken>; 2],
    refused: u32,
    /// the one schedule point at which interference is allowed in this instance
    point: u32,
}
static mut VS: Vs = Vs { mgr: core::ptr::null(), k: 0, fired: false, b_ops: 0, b_writers: [None, None], b_readers: [None, None], refused: 0, point: 0 };

/// One complete operation of thread B, chosen by the solver among the ENABLED ones (an operation
/// that would block on `token_chain_mutex`, because A holds it at this schedule point, is not enabled).
unsafe fn vs_b_op() {
    let m = &*VS.mgr;
    if m.verif_token_chain_locked() {
        return;
    }
    let op: u8 = vany();
    assume(op < 5);
    if op == 4 {
        return;
    }
    VS.b_ops += 1;
    match op {
        0 => {
            // acquire writer
            let (ar, aw) = (m.active_readers(), m.active_writers());
            let r = m.acquire_writer_token();
            match r {
                Ok(t) => {
                    if VS.b_writers[0].is_none() {
                        VS.b_writers[0] = Some(t);
                    } else if VS.b_writers[1].is_none() {
                        VS.b_writers[1] = Some(t);
                    } else {
                        drop(t);
                    }
                }
                Err(e) => {
                    forget(e);
                    VS.refused += 1;
                    assert!(m.active_readers() == ar && m.active_writers() == aw, "a refused request changed the counters");
                }
            }
        }
        1 => {
            let r = m.acquire_reader_token();
            match r {
                Ok(t) => {
                    if VS.b_readers[0].is_none() {
                        VS.b_readers[0] = Some(t);
                    } else if VS.b_readers[1].is_none() {
                        VS.b_readers[1] = Some(t);
                    } else {
                        drop(t);
                    }
                }
                Err(e) => forget(e),
            }
        }
        2 => {
            if let Some(t) = VS.b_readers[0].take() {
                drop(t);
            } else if let Some(t) = VS.b_readers[1].take() {
                drop(t);
            }
        }
        _ => {
            if let Some(t) = VS.b_writers[0].take() {
                drop(t);
            } else if let Some(t) = VS.b_writers[1].take() {
                drop(t);
            }
        }
    }
}

/// Interference fires once, the first time A reaches schedule point `point`: up to K complete
/// operations of B, straight-line (each may also be "nothing").
fn vs_hook(id: u32) {
    unsafe {
        if id != VS.point || VS.fired {
            return;
        }
        VS.fired = true;
        if VS.k >= 1 { vs_b_op(); }
        if VS.k >= 2 { vs_b_op(); }
        if VS.k >= 3 { vs_b_op(); }
    }
}

/// Quiescent-state invariants of the property.
unsafe fn vs_check(m: &VersionManager, a_writer: &Option<WriterToken>, a_reader: &Option<ReaderToken>, one_writer: bool) {
    let mut writers = 0u64;
    let mut readers = 0u64;
    let mut min_live = u64::MAX;
    if let Some(t) = a_writer {
        writers += 1;
        if t.version() < min_live { min_live = t.version(); }
    }
    if let Some(t) = a_reader {
        readers += 1;
        if t.version() < min_live { min_live = t.version(); }
    }
    let mut i = 0;
    while i < 2 {
        if let Some(t) = &VS.b_writers[i] {
            writers += 1;
            if t.version() < min_live { min_live = t.version(); }
        }
        if let Some(t) = &VS.b_readers[i] {
            readers += 1;
            if t.version() < min_live { min_live = t.version(); }
        }
        i += 1;
    }
    if one_writer {
        assert!(writers <= 1, "two writer tokens live in OneWriteMultiRead mode");
    }
    assert!(m.active_writers() == writers, "active_writers differs from the number of live writer tokens");
    assert!(m.active_readers() == readers, "active_readers differs from the number of live reader tokens");
    if min_live != u64::MAX {
        assert!(m.min_version() <= min_live, "min_version exceeds the version of a live token");
        // consequence stated by the property: an item retired at a live token's version is not freed
        let item = LazyFreeItem::new(min_live, 0, 8);
        assert!(!item.can_free(m.min_version()), "item retired at a live token's version would be freed");
    }
}

unsafe fn vs_release_all() {
    let mut i = 0;
    while i < 2 {
        if let Some(t) = VS.b_writers[i].take() { drop(t); }
        if let Some(t) = VS.b_readers[i].take() { drop(t); }
        i += 1;
    }
}

/// a_op: 0 = A acquires a writer, 1 = A acquires a reader, 2 = A releases a reader it holds.
fn version_sched(level: ConcurrencyLevel, a_op: u8, point: u32, k: u32) {
    let m = VersionManager::new(level);
    let one_writer = level == ConcurrencyLevel::OneWriteMultiRead;
    unsafe {
        VS = Vs { mgr: &m, k, fired: false, b_ops: 0, b_writers: [None, None], b_readers: [None, None], refused: 0, point };
    }
    let mut a_writer: Option<WriterToken> = None;
    let mut a_reader: Option<ReaderToken> = None;
    if a_op == 2 {
        match m.acquire_reader_token() { Ok(t) => a_reader = Some(t), Err(e) => { forget(e); } }
    }
    set_sched_hook(vs_hook);
    match a_op {
        0 => match m.acquire_writer_token() { Ok(t) => a_writer = Some(t), Err(e) => { forget(e); } },
        1 => match m.acquire_reader_token() { Ok(t) => a_reader = Some(t), Err(e) => { forget(e); } },
        _ => { if let Some(t) = a_reader.take() { drop(t); } }
    }
    clear_sched_hook();
    unsafe {
        vs_check(&m, &a_writer, &a_reader, one_writer);
        zcover!(VS.b_ops >= 2, "opt: interference ran two operations");
        zcover!(VS.b_ops == 0, "opt: no interference");
        zcover!(VS.refused > 0, "opt: a writer request was refused");
        // quiescence: everything released => counters return to zero
        vs_release_all();
    }
    drop(a_writer);
    drop(a_reader);
    assert!(m.active_readers() == 0 && m.active_writers() == 0, "counters do not return to zero at quiescence");
    zcover!(true, "end reached");
    forget(m);
}

macro_rules! c16_sched {
    ($name:ident, $tier:ident, $unwind:literal, $level:ident, $aop:literal, $point:literal, $k:literal) => {
        zv_harness! {
            name: $name,
            prop: "C16",
            tier: $tier,
            unwind: $unwind,
            stubs: [
                alloc::fmt::format => crate::common::stubs::fmt_format,
                std::rt::thread_cleanup => crate::common::stubs::noop,
                std::thread::current::current => crate::common::stubs::thread_current,
                std::thread::Thread::id => crate::common::stubs::thread_id,
                std::time::Instant::now => crate::common::stubs::instant_now,
                std::time::Instant::elapsed => crate::common::stubs::instant_elapsed
            ],
            targets: "fsa::version_sync::VersionManager::{acquire_writer_token, acquire_reader_token, release_reader_token, release_writer_token, try_advance_min_version}, ReaderToken/WriterToken::drop, LazyFreeItem::can_free; schedule points 401,402,403,404,410,411,413,421,422,423,424",
            bounds: "one manager at the instance's ConcurrencyLevel; thread A: one operation (instance arg: 0 acquire writer, 1 acquire reader, 2 release a reader); the first time A reaches ONE schedule point (instance arg before last: its id) the solver runs 0..K complete enabled operations of thread B from {acquire writer, acquire reader, drop a reader, drop a writer} (K = last arg, nesting depth 1); B holds at most 2+2 tokens; sequentially consistent atomics",
            oracle: "at quiescence: live writer tokens <= 1 (OneWriteMultiRead); active_readers/active_writers == live token counts; min_version <= version of every live token and LazyFreeItem{age = that version}.can_free(min_version) is false; a refused writer request leaves the counters unchanged; all counters 0 after every token is dropped",
            body: { version_sched(ConcurrencyLevel::$level, $aop, $point, $k) }
        }
    };
}
c16_sched!(c16_writer_at401_k2, quick, 4, OneWriteMultiRead, 0, 401, 2);
c16_sched!(c16_writer_at402_k2, quick, 4, OneWriteMultiRead, 0, 402, 2);
c16_sched!(c16_reader_at411_k2, quick, 4, OneWriteMultiRead, 1, 411, 2);
c16_sched!(c16_release_at421_k2, thorough, 4, OneWriteMultiRead, 2, 421, 2);
c16_sched!(c16_release_at424_k2, quick, 4, OneWriteMultiRead, 2, 424, 2);
c16_sched!(c16_writer_at403_k2, quick, 4, OneWriteMultiRead, 0, 403, 2);
c16_sched!(c16_writer_at404_k2, quick, 4, OneWriteMultiRead, 0, 404, 2);
c16_sched!(c16_reader_at413_k2, quick, 4, OneWriteMultiRead, 1, 413, 2);
c16_sched!(c16_writer_stshared_at402_k3, quick, 5, SingleThreadShared, 0, 402, 3);
c16_sched!(c16_reader_ststrict_at411_k3, quick, 5, SingleThreadStrict, 1, 411, 3);
c16_sched!(c16_writer_mwmr_at402_k3, quick, 5, MultiWriteMultiRead, 0, 402, 3);
c16_sched!(c16_reader_at410_k2, quick, 4, OneWriteMultiRead, 1, 410, 2);
c16_sched!(c16_release_at422_k2, quick, 4, OneWriteMultiRead, 2, 422, 2);
c16_sched!(c16_release_at423_k2, quick, 4, OneWriteMultiRead, 2, 423, 2);
c16_sched!(c16_writer_mwmr_at402_k2, thorough, 4, MultiWriteMultiRead, 0, 402, 2);
c16_sched!(c16_release_mwmr_at422_k3, thorough, 5, MultiWriteMultiRead, 2, 422, 3);
c16_sched!(c16_writer_at401_k3, thorough, 5, OneWriteMultiRead, 0, 401, 3);
c16_sched!(c16_reader_at411_k3, probe, 5, OneWriteMultiRead, 1, 411, 3);


// ---------------------------------------------------------------- LazyFreeList
/// Items retired at symbolic ages are queued in a solver-chosen order; process_safe_items(min)
/// may only hand items with age < min to the free callback, and must keep every other item.
fn lazy_free<const N: usize>() {
    let mut list = LazyFreeList::with_bulk_threshold(8);
    let ages: [u64; N] = vany();
    let mut i = 0;
    while i < N {
        assume(ages[i] < 16);
        list.push(LazyFreeItem::new(ages[i], i as u32, 8));
        i += 1;
    }
    let min: u64 = vany();
    assume(min < 16);
    let mut freed = [false; N];
    let mut bad = false;
    let n = list.process_safe_items(min, |it| {
        let k = it.memory_offset as usize;
        if k < N {
            if freed[k] || it.age != ages[k] { bad = true; }
            freed[k] = true;
        } else {
            bad = true;
        }
        if !(it.age < min) { bad = true; }
    });
    assert!(!bad, "an item with age >= min_version was handed to the free callback (or an item twice)");
    let mut cnt = 0;
    i = 0;
    while i < N {
        if freed[i] { cnt += 1; }
        i += 1;
    }
    assert!(n == cnt && list.len() == N - cnt, "processed count / remaining length do not add up");
    zcover!(cnt > 0 && cnt < N, "some freed, some kept");
    zcover!(N >= 2 && ages[0] > ages[N - 1], "opt: queue not sorted by age");
    forget(list);
}
macro_rules! c16_lazy_free {
    ($name:ident, $tier:ident, $unwind:literal, $n:literal) => {
        zv_harness! {
            name: $name,
            prop: "C16",
            tier: $tier,
            unwind: $unwind,
            stubs: [
                alloc::fmt::format => crate::common::stubs::fmt_format,
                std::time::Instant::now => crate::common::stubs::instant_now,
                std::time::Instant::elapsed => crate::common::stubs::instant_elapsed
            ],
            targets: "fsa::version_sync::LazyFreeList::{with_bulk_threshold, push, process_safe_items, len}, LazyFreeItem::can_free",
            bounds: "N items (instance arg) with symbolic ages < 16 pushed in any order, one process_safe_items call with symbolic min_version < 16, bulk threshold 8",
            oracle: "every item handed to the free callback has age < min_version and is handed over once; returned count == items freed; the others stay queued",
            body: { lazy_free::<$n>() }
        }
    };
}
c16_lazy_free!(c16_lazy_free_n3, quick, 6, 3);
c16_lazy_free!(c16_lazy_free_n4, thorough, 7, 4);

// ---------------------------------------------------------------- token lifetime (known finding)
zv_harness! {
    name: c16_token_outlives_manager,
    prop: "C16",
    tier: quick,
    unwind: 4,
    stubs: [
        alloc::fmt::format => crate::common::stubs::fmt_format,
        std::rt::thread_cleanup => crate::common::stubs::noop,
        std::thread::current::current => crate::common::stubs::thread_current,
        std::thread::Thread::id => crate::common::stubs::thread_id,
        std::time::Instant::now => crate::common::stubs::instant_now,
        std::time::Instant::elapsed => crate::common::stubs::instant_elapsed
    ],
    targets: "fsa::version_sync::VersionManager::acquire_reader_token / acquire_writer_token, ReaderToken/WriterToken::drop -> TokenReleaseCallback::release (raw *const VersionManager)",
    bounds: "one boxed manager; one token (reader or writer: solver's choice) acquired through the safe API; the manager is dropped before the token",
    oracle: "releasing a token after the manager that issued it has gone away never touches freed memory (CBMC pointer checks on the release path)",
    flags: [twin],
    kf: "c16_token_outlives_manager",
    body: {
        let m = Box::new(VersionManager::new(ConcurrencyLevel::OneWriteMultiRead));
        let want_writer: bool = vany();
        let (r, w) = if want_writer {
            (None, m.acquire_writer_token().ok())
        } else {
            (m.acquire_reader_token().ok(), None)
        };
        drop(m);
        // safe code: the tokens carry no lifetime tied to the manager
        drop(r);
        drop(w);
        zcover!(true, "end reached");
    }
}

//! C17 — caches stay within capacity, evict least-recently-used, never serve stale data.
//!
//! `LruMap` indexes its nodes with a std `HashMap<K,u32>` (SipHash + hashbrown SSE2 group probing):
//! every key is a CONSTANT at its call site (a symbolic key costs minutes per call); what is symbolic
//! is which operations happen (solver-chosen booleans / op codes) and every value.
use crate::common::*;
use std::sync::atomic::{AtomicU8, AtomicUsize, Ordering};
use zipora::containers::specialized::{EvictionCallback, LruMap, LruMapConfig};

/// `std::hash::RandomState::new`: fixed SipHash keys (the real one calls getrandom).
pub fn randomstate_fixed() -> std::hash::RandomState {
    // SAFETY: RandomState is a plain pair of u64 keys.
    unsafe { core::mem::transmute::<(u64, u64), std::hash::RandomState>((0, 0)) }
}
/// `ZiporaError::out_of_memory` as an assertion: `LruMap` maps every internal failure ("no free node",
/// "no LRU node to evict", poisoned lock) to this constructor; a put into a cache must not fail.
pub fn out_of_memory_unreachable(_n: usize) -> zipora::ZiporaError {
    panic!("LruMap produced an out_of_memory error (free list / LRU list exhausted)");
}

/// Eviction callback that records (count, last key, last value) in leaked atomics.
pub struct Rec {
    pub count: AtomicUsize,
    pub key: AtomicU8,
    pub val: AtomicU8,
}
pub struct RecCb(pub &'static Rec);
impl EvictionCallback<u8, u8> for RecCb {
    fn on_evict(&self, key: &u8, value: &u8) {
        self.0.count.fetch_add(1, Ordering::Relaxed);
        self.0.key.store(*key, Ordering::Relaxed);
        self.0.val.store(*value, Ordering::Relaxed);
    }
}

fn mk(capacity: usize) -> (LruMap<u8, u8, RecCb>, &'static Rec) {
    let rec: &'static Rec = Box::leak(Box::new(Rec { count: AtomicUsize::new(0), key: AtomicU8::new(0xEE), val: AtomicU8::new(0xEE) }));
    let cfg = LruMapConfig {
        capacity,
        initial_hash_capacity: 1,
        enable_statistics: false,
        use_secure_memory: false, // the default routes through the global SecureMemoryPool
        load_factor: 0.75,
        enable_access_tracking: false,
        prefetch_distance: 0,
    };
    let r = LruMap::with_config_and_callback(cfg, RecCb(rec));
    match r {
        Ok(m) => (m, rec),
        Err(e) => {
            forget(e);
            panic!("constructor failed");
        }
    }
}

#[inline(always)]
fn put_ok(m: &LruMap<u8, u8, RecCb>, k: u8, v: u8) -> Option<u8> {
    let r = m.put(k, v);
    let out = match &r {
        Ok(p) => *p,
        Err(_) => {
            forget(r);
            panic!("put failed although the cache only has to evict");
        }
    };
    forget(r);
    out
}

/// capacity 2: put(0) put(1) [get(0)] [put(0,v) update] put(2) — the victim is the entry whose last
/// access (get or put) is oldest; the callback fires exactly once with that entry.
fn lru_cap2_recency() {
    let (m, rec) = mk(2);
    let v0: u8 = vany();
    let v1: u8 = vany();
    let v2: u8 = vany();
    let v0b: u8 = vany();
    let touch_get: bool = vany();
    let touch_put: bool = vany();
    assert!(put_ok(&m, 0, v0).is_none());
    assert!(put_ok(&m, 1, v1).is_none());
    assert!(m.len() == 2 && rec.count.load(Ordering::Relaxed) == 0, "eviction before the capacity was reached");
    let mut cur0 = v0;
    if touch_get {
        assert!(m.get(&0) == Some(v0), "get(0) is not the value put");
    }
    if touch_put {
        assert!(put_ok(&m, 0, v0b) == Some(v0), "update did not return the previous value");
        cur0 = v0b;
    }
    assert!(rec.count.load(Ordering::Relaxed) == 0, "callback fired without an eviction");
    assert!(put_ok(&m, 2, v2).is_none());
    let touched = touch_get || touch_put;
    // exactly one eviction, of the least recently accessed entry
    assert!(rec.count.load(Ordering::Relaxed) == 1, "callback not invoked exactly once");
    let (vk, vv) = if touched { (1u8, v1) } else { (0u8, cur0) };
    assert!(rec.key.load(Ordering::Relaxed) == vk, "the victim is not the least recently used key");
    assert!(rec.val.load(Ordering::Relaxed) == vv, "callback did not receive the victim's value");
    assert!(m.len() == 2, "size exceeds capacity or an entry was lost");
    assert!(!m.contains_key(&vk), "evicted key still present");
    assert!(m.get(&vk).is_none(), "evicted key still retrievable");
    assert!(m.get(&2) == Some(v2), "newest entry not retrievable");
    let (sk, sv) = if touched { (0u8, cur0) } else { (1u8, v1) };
    assert!(m.get(&sk) == Some(sv), "surviving entry lost or stale");
    zcover!(touched, "recency changed by an access");
    zcover!(!touched, "plain insertion order");
    forget(m);
}

/// capacity 1: every put of a new key evicts; update of the resident key does not.
fn lru_cap1() {
    let (m, rec) = mk(1);
    let v0: u8 = vany();
    let v1: u8 = vany();
    let v1b: u8 = vany();
    assert!(put_ok(&m, 0, v0).is_none());
    assert!(put_ok(&m, 1, v1).is_none());
    assert!(rec.count.load(Ordering::Relaxed) == 1 && rec.key.load(Ordering::Relaxed) == 0 && rec.val.load(Ordering::Relaxed) == v0,
        "capacity 1: first entry not evicted exactly once with its key/value");
    assert!(m.len() == 1 && m.get(&0).is_none() && m.get(&1) == Some(v1));
    assert!(put_ok(&m, 1, v1b) == Some(v1), "update did not return the previous value");
    assert!(rec.count.load(Ordering::Relaxed) == 1, "update of the resident key evicted something");
    assert!(m.get(&1) == Some(v1b) && m.len() == 1);
    zcover!(true, "end reached");
    forget(m);
}

/// remove / clear free their nodes: afterwards the cache again holds `capacity` entries.
fn lru_cap2_reuse<const CLEAR: bool>() {
    let (m, rec) = mk(2);
    let v0: u8 = vany();
    let v1: u8 = vany();
    let v2: u8 = vany();
    assert!(put_ok(&m, 0, v0).is_none());
    if CLEAR {
        let c = m.clear();
        let ok = c.is_ok();
        forget(c);
        assert!(ok, "clear failed");
    } else {
        assert!(m.remove(&0) == Some(v0), "remove did not return the value");
    }
    assert!(m.len() == 0 && m.get(&0).is_none(), "entry survived remove/clear");
    assert!(put_ok(&m, 1, v1).is_none());
    assert!(put_ok(&m, 2, v2).is_none());
    assert!(rec.count.load(Ordering::Relaxed) == 0, "eviction although only 2 entries are live with capacity 2");
    assert!(m.len() == 2 && m.get(&1) == Some(v1) && m.get(&2) == Some(v2), "cache does not hold 2 entries after remove/clear");
    zcover!(true, "end reached");
    forget(m);
}

macro_rules! c17_lru {
    ($name:ident, $tier:ident, $unwind:literal, $body:expr, $what:literal) => {
        zv_harness! {
            name: $name,
            prop: "C17",
            tier: $tier,
            unwind: $unwind,
            stubs: [alloc::fmt::format => crate::common::stubs::fmt_format,
                    std::rt::thread_cleanup => crate::common::stubs::noop,
                    std::time::SystemTime::now => crate::common::stubs::systemtime_now,
                    std::hash::RandomState::new => crate::c17_cache::randomstate_fixed,
                    zipora::error::ZiporaError::out_of_memory => crate::c17_cache::out_of_memory_unreachable],
            targets: "LruMap<u8,u8,RecordingCallback>::{with_config_and_callback, put, get, remove, clear, contains_key, len}, LruList::{insert_head, remove, move_to_head}, evict_lru, allocate_node",
            bounds: "capacity 1 or 2 (use_secure_memory=false, statistics off), keys are the constants 0,1,2 at each call site, all values symbolic, solver-chosen optional accesses; scenario given by the instance",
            oracle: "size <= capacity; get = last value put unless evicted/removed; the victim is the least recently accessed (get or put) entry; callback invoked exactly once per eviction with the victim's key and value and never otherwise; put never fails",
            cbmc: "--unwindset _RNvMsa_NtCsl0WFnl6M0hS_9hashbrown3rawNtB5_13RawTableInner10find_inner.0:4,_RNvMsa_NtCsl0WFnl6M0hS_9hashbrown3rawNtB5_13RawTableInner10find_inner.1:3",
            body: { $body }
        }
    };
}

c17_lru!(c17_lru_cap2_recency, probe, 20, lru_cap2_recency(), "recency");
c17_lru!(c17_lru_cap1_evict, probe, 20, lru_cap1(), "capacity 1");
c17_lru!(c17_lru_cap2_remove_reuse, probe, 20, lru_cap2_reuse::<false>(), "remove then refill");
c17_lru!(c17_lru_cap2_clear_reuse, probe, 20, lru_cap2_reuse::<true>(), "clear then refill");

//! C08 — concurrent pool users never share a block and no block is lost.
//!
//! Interleavings are explored with *nested interference* (DESIGN.md section 3): thread A runs one
//! real operation; at every schedule point compiled into zipora (feature `zipora_verif`) the hook
//! below lets the SOLVER decide to run up to K complete real operations of thread B on the same
//! object before A resumes. Every explored run is a real sequentially consistent interleaving.
use crate::common::*;
use zipora::memory::secure_pool::verif_access::Stack;
use zipora::verif_hooks::{clear_sched_hook, set_sched_hook};

// ---------------------------------------------------------------- Treiber stack (secure_pool.rs)
struct Tre {
    stack: *const Stack,
    /// interference fires once, the first time A reaches schedule point `point`
    point: u32,
    fired: bool,
    k: u32,
    next_val: u64,
    /// how often each value 1..=7 was handed out by a pop (any thread)
    seen: [u8; 8],
    b_ops: u32,
}
static mut TRE: Tre = Tre { stack: core::ptr::null(), point: 0, fired: false, k: 0, next_val: 0, seen: [0; 8], b_ops: 0 };

fn tre_record(v: Option<u64>) {
    if let Some(v) = v {
        assert!(v >= 1 && v < 8, "popped a value that was never pushed");
        unsafe {
            TRE.seen[v as usize] += 1;
            assert!(TRE.seen[v as usize] == 1, "the same element was handed out twice");
        }
    }
}

/// One complete operation of thread B chosen by the solver: nothing, push(fresh value) or pop.
unsafe fn tre_b_op() {
    let op: u8 = vany();
    assume(op < 3);
    if op == 0 {
        return;
    }
    let st = &*TRE.stack;
    if op == 2 && st.pop_locked() {
        // B's pop would block on the pop lock held by A: not an enabled step at this point
        return;
    }
    TRE.b_ops += 1;
    if op == 1 {
        let v = TRE.next_val;
        TRE.next_val += 1;
        st.push(v);
    } else {
        tre_record(st.pop());
    }
}

fn tre_hook(id: u32) {
    unsafe {
        if id != TRE.point || TRE.fired {
            return;
        }
        TRE.fired = true;
        if TRE.k >= 1 { tre_b_op(); }
        if TRE.k >= 2 { tre_b_op(); }
        if TRE.k >= 3 { tre_b_op(); }
    }
}

/// A = one pop (a_pop) or one push, pre-loaded stack [1,2] (2 on top); B: up to K ops at `point`.
/// Unwind 3: after the single interference window nothing else changes `head`, so every
/// compare-exchange loop needs at most 2 iterations (checked by the unwinding assertions).
fn treiber(a_pop: bool, point: u32, k: u32) {
    let st = Stack::new();
    st.push(1);
    st.push(2);
    unsafe {
        TRE = Tre { stack: &st, point, fired: false, k, next_val: 4, seen: [0; 8], b_ops: 0 };
    }
    set_sched_hook(tre_hook);
    if a_pop {
        tre_record(st.pop());
    } else {
        st.push(3);
    }
    clear_sched_hook();
    // quiescence: drain (at most 2 + 1 + 3 = 6 nodes can be present); every pushed value must
    // come out exactly once overall
    tre_record(st.pop());
    tre_record(st.pop());
    tre_record(st.pop());
    tre_record(st.pop());
    tre_record(st.pop());
    tre_record(st.pop());
    assert!(st.is_empty(), "stack longer than everything ever pushed (cycle)");
    let pushed_by_b = unsafe { TRE.next_val } - 4;
    let seen = unsafe { TRE.seen };
    assert!(seen[1] == 1 && seen[2] == 1, "a pre-loaded element was lost");
    assert!(seen[3] == if a_pop { 0 } else { 1 }, "A's element was lost or invented");
    assert!(seen[4] == if pushed_by_b >= 1 { 1 } else { 0 }, "B's element was lost or invented");
    assert!(seen[5] == if pushed_by_b >= 2 { 1 } else { 0 }, "B's element was lost or invented");
    assert!(seen[6] == if pushed_by_b >= 3 { 1 } else { 0 }, "B's element was lost or invented");
    zcover!(unsafe { TRE.b_ops } >= 1, "interference ran an operation");
    zcover!(unsafe { TRE.b_ops } == 0, "no interference");
    forget(st);
}

macro_rules! c08_treiber {
    ($name:ident, $tier:ident, $unwind:literal, $apop:literal, $point:literal, $k:literal) => {
        zv_harness! {
            name: $name,
            prop: "C08",
            tier: $tier,
            unwind: $unwind,
            stubs: [alloc::fmt::format => crate::common::stubs::fmt_format],
            targets: "memory::secure_pool::LockFreeStack::<u64>::{push,pop} (the Treiber stack behind SecureMemoryPool::global_stack) through verif_access::Stack; schedule points 101,102,111,112",
            bounds: "stack pre-loaded with 2 nodes; thread A: one pop (instance arg true) or one push (false); the first time A reaches ONE schedule point (instance arg before last: its id) the solver runs 0..K complete push/pop operations of thread B (K = last instance arg), nesting depth 1; sequentially consistent atomics",
            oracle: "no node dereferenced after it was freed (CBMC pointer checks), no element handed out twice, multiset popped+drained == pushed, stack empties after a bounded drain (acyclic)",
            body: { treiber($apop, $point, $k) }
        }
    };
}
c08_treiber!(c08_treiber_pop_at111_k1, quick, 3, true, 111, 1);
c08_treiber!(c08_treiber_pop_at112_k1, quick, 3, true, 112, 1);
c08_treiber!(c08_treiber_push_at101_k1, quick, 3, false, 101, 1);
c08_treiber!(c08_treiber_push_at102_k1, quick, 3, false, 102, 1);
c08_treiber!(c08_treiber_pop_at111_k2, thorough, 3, true, 111, 2);
c08_treiber!(c08_treiber_pop_at112_k3, thorough, 3, true, 112, 3);
c08_treiber!(c08_treiber_push_at102_k3, thorough, 3, false, 102, 3);

// ---------------------------------------------------------------- LockFreeMemoryPool fast bins
use std::ptr::NonNull;
use zipora::memory::lockfree_pool::{BackoffStrategy, LockFreeMemoryPool, LockFreePoolConfig};

const LF_SIZE: usize = 16;

struct Lf {
    pool: *const LockFreeMemoryPool,
    point: u32,
    fired: bool,
    k: u32,
    /// blocks currently owned by thread B
    b_held: [Option<NonNull<u8>>; 4],
    b_ops: u32,
}
static mut LF: Lf = Lf { pool: core::ptr::null(), point: 0, fired: false, k: 0, b_held: [None; 4], b_ops: 0 };

/// One complete operation of B: nothing, allocate (keep the block), or free the oldest block held.
unsafe fn lf_b_op() {
    let op: u8 = vany();
    assume(op < 3);
    if op == 0 {
        return;
    }
    let pool = &*LF.pool;
    LF.b_ops += 1;
    if op == 1 {
        let r = pool.allocate(LF_SIZE);
        match r {
            Ok(p) => {
                let mut i = 0;
                while i < 4 {
                    if LF.b_held[i].is_none() {
                        LF.b_held[i] = Some(p);
                        break;
                    }
                    i += 1;
                }
            }
            Err(e) => forget(e),
        }
    } else {
        let mut i = 0;
        while i < 4 {
            if let Some(p) = LF.b_held[i].take() {
                let r = pool.deallocate(p, LF_SIZE);
                forget(r);
                break;
            }
            i += 1;
        }
    }
}

fn lf_hook(id: u32) {
    unsafe {
        if id != LF.point || LF.fired {
            return;
        }
        LF.fired = true;
        if LF.k >= 1 { lf_b_op(); }
        if LF.k >= 2 { lf_b_op(); }
        if LF.k >= 3 { lf_b_op(); }
    }
}

/// Free list pre-loaded with three 16-byte blocks; A allocates (a_alloc) or frees a block it owns,
/// B interferes once at `point`; afterwards every block is owned by at most one party and the
/// free list hands out nothing that is still owned.
fn lfpool_sched(a_alloc: bool, point: u32, k: u32) {
    let cfg = LockFreePoolConfig {
        memory_size: 512,
        enable_stats: false,
        max_cas_retries: 3,
        backoff_strategy: BackoffStrategy::None,
        enable_cache_alignment: false,
        cache_config: None,
        enable_numa_awareness: false,
        enable_huge_pages: false,
        huge_page_threshold: 2 * 1024 * 1024,
        enable_simd_optimization: false,
        zero_on_free: false,
    };
    let pool = match LockFreeMemoryPool::new(cfg) { Ok(p) => p, Err(e) => { forget(e); return; } };
    let get = |p: &LockFreeMemoryPool| -> NonNull<u8> {
        match p.allocate(LF_SIZE) { Ok(x) => x, Err(e) => { forget(e); panic!("512-byte arena refused a 16-byte request") } }
    };
    let (p1, p2, p3, a_own) = (get(&pool), get(&pool), get(&pool), get(&pool));
    forget(pool.deallocate(p3, LF_SIZE));
    forget(pool.deallocate(p2, LF_SIZE));
    forget(pool.deallocate(p1, LF_SIZE));
    unsafe {
        LF = Lf { pool: &pool, point, fired: false, k, b_held: [None; 4], b_ops: 0 };
    }
    zipora::verif_hooks::set_sched_hook(lf_hook);
    let mut a_block: Option<NonNull<u8>> = Some(a_own);
    let mut a_second: Option<NonNull<u8>> = None;
    if a_alloc {
        match pool.allocate(LF_SIZE) { Ok(p) => a_second = Some(p), Err(e) => forget(e) }
    } else {
        let r = pool.deallocate(a_own, LF_SIZE);
        if r.is_ok() { a_block = None; }
        forget(r);
    }
    zipora::verif_hooks::clear_sched_hook();
    // quiescence: three more requests drain whatever the free list still offers
    let d = [get(&pool), get(&pool), get(&pool)];
    // ownership: A's blocks, B's blocks and the drained blocks are pairwise different addresses
    let mut all: [Option<NonNull<u8>>; 9] = [None; 9];
    all[0] = a_block;
    all[1] = a_second;
    let held = unsafe { LF.b_held };
    all[2] = held[0];
    all[3] = held[1];
    all[4] = held[2];
    all[5] = held[3];
    all[6] = Some(d[0]);
    all[7] = Some(d[1]);
    all[8] = Some(d[2]);
    let mut i = 0;
    while i < 9 {
        let mut j = i + 1;
        while j < 9 {
            if let (Some(x), Some(y)) = (all[i], all[j]) {
                assert!(x != y, "one block is owned twice (handed out while still owned, or twice from the free list)");
            }
            j += 1;
        }
        i += 1;
    }
    zcover!(unsafe { LF.b_ops } >= 1, "interference ran an operation");
    zcover!(unsafe { LF.b_ops } == 0, "opt: no interference");
    forget(pool);
}

macro_rules! c08_lfpool {
    ($name:ident, $tier:ident, $unwind:literal, $aalloc:literal, $point:literal, $k:literal) => {
        zv_harness! {
            name: $name,
            prop: "C08",
            tier: $tier,
            unwind: $unwind,
            stubs: [alloc::fmt::format => crate::common::stubs::fmt_format],
            targets: "memory::lockfree_pool::LockFreeMemoryPool::{allocate, deallocate, allocate_from_fast_bin, deallocate_to_fast_bin, pack_head, unpack_head, allocate_new_block}; schedule points 201,202 (pop) and 211,212 (push)",
            bounds: "512-byte arena, one size class (16 bytes), free list pre-loaded with 3 blocks, max_cas_retries 3; thread A: one allocate (instance arg true) or one deallocate (false); the first time A reaches ONE schedule point (arg before last) the solver runs 0..K complete allocate/deallocate operations of thread B (K = last arg); B holds at most 4 blocks; sequentially consistent atomics; unwind 66 covers the 64 fast bins built by new()",
            oracle: "after quiescence and three further allocations, all blocks owned by A, by B and just handed out are pairwise distinct addresses (no block owned twice, no owned block still on the free list); CBMC pointer checks on every free-list link",
            body: { lfpool_sched($aalloc, $point, $k) }
        }
    };
}
c08_lfpool!(c08_lfpool_alloc_at202_k3, quick, 66, true, 202, 3);
c08_lfpool!(c08_lfpool_alloc_at201_k3, quick, 66, true, 201, 3);
c08_lfpool!(c08_lfpool_free_at212_k2, quick, 66, false, 212, 2);
c08_lfpool!(c08_lfpool_free_at211_k3, thorough, 66, false, 211, 3);

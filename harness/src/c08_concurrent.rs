//! C08 — concurrent pool users never share a block and no block is lost.
//!
//! Interleavings are explored with *nested interference* (DESIGN.md section 3): thread A runs one
//! real operation; at every schedule point compiled into zipora (feature `zipora_verif`) the hook
//! below lets the SOLVER decide to run up to K complete real operations of thread B on the same
//! object before A resumes. Every explored run is a real sequentially consistent interleaving.
use crate::common::*;
use zipora::memory::secure_pool::verif_access::Stack;
use zipora::verif_hooks::{clear_sched_hook, set_sched_hook};

// ---------------------------------------------------------------- Treiber stack (secure_pool.rs)
struct Tre {
    stack: *const Stack,
    /// interference fires once, the first time A reaches schedule point `point`
    point: u32,
    fired: bool,
    k: u32,
    next_val: u64,
    /// how often each value 1..=7 was handed out by a pop (any thread)
    seen: [u8; 8],
    b_ops: u32,
}
static mut TRE: Tre = Tre { stack: core::ptr::null(), point: 0, fired: false, k: 0, next_val: 0, seen: [0; 8], b_ops: 0 };

fn tre_record(v: Option<u64>) {
    if let Some(v) = v {
        assert!(v >= 1 && v < 8, "popped a value that was never pushed");
        unsafe {
            TRE.seen[v as usize] += 1;
            assert!(TRE.seen[v as usize] == 1, "the same element was handed out twice");
        }
    }
}

/// One complete operation of thread B chosen by the solver: nothing, push(fresh value) or pop.
unsafe fn tre_b_op() {
    let op: u8 = vany();
    assume(op < 3);
    if op == 0 {
        return;
    }
    let st = &*TRE.stack;
    if op == 2 && st.pop_locked() {
        // B's pop would block on the pop lock held by A: not an enabled step at this point
        return;
    }
    TRE.b_ops += 1;
    if op == 1 {
        let v = TRE.next_val;
        TRE.next_val += 1;
        st.push(v);
    } else {
        tre_record(st.pop());
    }
}

fn tre_hook(id: u32) {
    unsafe {
        if id != TRE.point || TRE.fired {
            return;
        }
        TRE.fired = true;
        if TRE.k >= 1 { tre_b_op(); }
        if TRE.k >= 2 { tre_b_op(); }
        if TRE.k >= 3 { tre_b_op(); }
    }
}

/// Single pre-loaded element: the state in which `next` is null for the popper (a push landing in
/// A's window must not be lost, the node A unlinks must be the one it returns).
fn treiber_single(point: u32, k: u32) {
    let st = Stack::new();
    st.push(1);
    unsafe {
        TRE = Tre { stack: &st, point, fired: false, k, next_val: 4, seen: [0; 8], b_ops: 0 };
    }
    set_sched_hook(tre_hook);
    tre_record(st.pop());
    clear_sched_hook();
    tre_record(st.pop());
    tre_record(st.pop());
    tre_record(st.pop());
    tre_record(st.pop());
    assert!(st.is_empty(), "stack longer than everything ever pushed (cycle)");
    let pushed_by_b = unsafe { TRE.next_val } - 4;
    let seen = unsafe { TRE.seen };
    assert!(seen[1] == 1, "the pre-loaded element was lost or handed out twice");
    assert!(seen[4] == if pushed_by_b >= 1 { 1 } else { 0 }, "B's element was lost or invented");
    assert!(seen[5] == if pushed_by_b >= 2 { 1 } else { 0 }, "B's element was lost or invented");
    assert!(seen[6] == if pushed_by_b >= 3 { 1 } else { 0 }, "B's element was lost or invented");
    zcover!(unsafe { TRE.b_ops } >= 1, "interference ran an operation");
    forget(st);
}

/// A = one pop (a_pop) or one push, pre-loaded stack [1,2] (2 on top); B: up to K ops at `point`.
/// Unwind 3: after the single interference window nothing else changes `head`, so every
/// compare-exchange loop needs at most 2 iterations (checked by the unwinding assertions).
fn treiber(a_pop: bool, point: u32, k: u32) {
    let st = Stack::new();
    st.push(1);
    st.push(2);
    unsafe {
        TRE = Tre { stack: &st, point, fired: false, k, next_val: 4, seen: [0; 8], b_ops: 0 };
    }
    set_sched_hook(tre_hook);
    if a_pop {
        tre_record(st.pop());
    } else {
        st.push(3);
    }
    clear_sched_hook();
    // quiescence: drain (at most 2 + 1 + 3 = 6 nodes can be present); every pushed value must
    // come out exactly once overall
    tre_record(st.pop());
    tre_record(st.pop());
    tre_record(st.pop());
    tre_record(st.pop());
    tre_record(st.pop());
    tre_record(st.pop());
    assert!(st.is_empty(), "stack longer than everything ever pushed (cycle)");
    let pushed_by_b = unsafe { TRE.next_val } - 4;
    let seen = unsafe { TRE.seen };
    assert!(seen[1] == 1 && seen[2] == 1, "a pre-loaded element was lost");
    assert!(seen[3] == if a_pop { 0 } else { 1 }, "A's element was lost or invented");
    assert!(seen[4] == if pushed_by_b >= 1 { 1 } else { 0 }, "B's element was lost or invented");
    assert!(seen[5] == if pushed_by_b >= 2 { 1 } else { 0 }, "B's element was lost or invented");
    assert!(seen[6] == if pushed_by_b >= 3 { 1 } else { 0 }, "B's element was lost or invented");
    zcover!(unsafe { TRE.b_ops } >= 1, "interference ran an operation");
    zcover!(unsafe { TRE.b_ops } == 0, "no interference");
    forget(st);
}

macro_rules! c08_treiber {
    ($name:ident, $tier:ident, $unwind:literal, $apop:literal, $point:literal, $k:literal) => {
        zv_harness! {
            name: $name,
            prop: "C08",
            tier: $tier,
            unwind: $unwind,
            stubs: [alloc::fmt::format => crate::common::stubs::fmt_format],
            targets: "memory::secure_pool::LockFreeStack::<u64>::{push,pop} (the Treiber stack behind SecureMemoryPool::global_stack) through verif_access::Stack; schedule points 101,102,111,112",
            bounds: "stack pre-loaded with 2 nodes; thread A: one pop (instance arg true) or one push (false); the first time A reaches ONE schedule point (instance arg before last: its id) the solver runs 0..K complete push/pop operations of thread B (K = last instance arg), nesting depth 1; sequentially consistent atomics",
            oracle: "no node dereferenced after it was freed (CBMC pointer checks), no element handed out twice, multiset popped+drained == pushed, stack empties after a bounded drain (acyclic)",
            body: { treiber($apop, $point, $k) }
        }
    };
}
macro_rules! c08_treiber_single {
    ($name:ident, $tier:ident, $unwind:literal, $point:literal, $k:literal) => {
        zv_harness! {
            name: $name,
            prop: "C08",
            tier: $tier,
            unwind: $unwind,
            stubs: [alloc::fmt::format => crate::common::stubs::fmt_format],
            targets: "memory::secure_pool::LockFreeStack::<u64>::{push,pop} on a ONE-element stack (next == null for the popper); schedule points 111,112",
            bounds: "stack pre-loaded with 1 node; thread A: one pop; the first time A reaches ONE schedule point (instance arg before last) the solver runs 0..K complete push/pop operations of thread B (K = last arg), enabled operations only",
            oracle: "no node dereferenced after it was freed, no element handed out twice, multiset popped+drained == pushed",
            body: { treiber_single($point, $k) }
        }
    };
}
c08_treiber_single!(c08_treiber_single_pop_at112_k2, quick, 3, 112, 2);
c08_treiber_single!(c08_treiber_single_pop_at111_k2, quick, 3, 111, 2);
c08_treiber!(c08_treiber_pop_at111_k1, quick, 3, true, 111, 1);
c08_treiber!(c08_treiber_pop_at112_k1, quick, 3, true, 112, 1);
c08_treiber!(c08_treiber_push_at101_k1, quick, 3, false, 101, 1);
c08_treiber!(c08_treiber_push_at102_k1, quick, 3, false, 102, 1);
c08_treiber!(c08_treiber_pop_at111_k2, thorough, 3, true, 111, 2);
c08_treiber!(c08_treiber_pop_at112_k3, thorough, 3, true, 112, 3);
c08_treiber!(c08_treiber_push_at102_k3, thorough, 3, false, 102, 3);

// ---------------------------------------------------------------- address-recycling allocator model
// CBMC never hands out the address of a freed heap object again, so the ABA half of the Treiber hazards
// (a freed node's address coming back with a different `next`) cannot occur in the plain harnesses above.
// Here the 16-byte / 8-aligned allocations of stack nodes are served from a small static arena whose
// freed blocks MAY be handed out again - which freed block, or a fresh one, is the solver's choice
// (all allocator reuse policies at once). Natively the same model runs as the global allocator with the
// replayed choices, so a counterexample replays deterministically against the real zipora code.
pub mod recycle {
    use core::alloc::Layout;
    const SLOTS: usize = 8;
    #[repr(align(8))]
    #[derive(Clone, Copy)]
    struct Slot([u8; 16]);
    static mut POOL: [Slot; SLOTS] = [Slot([0; 16]); SLOTS];
    /// 0 = never used, 1 = live, 2 = freed
    static mut STATE: [u8; SLOTS] = [0; SLOTS];
    static mut FRESH: usize = 0;
    static mut PICKS: [u8; SLOTS] = [0; SLOTS];
    static mut NEXT_PICK: usize = 0;
    static mut ARMED: bool = false;
    pub static mut REUSED: u32 = 0;

    pub fn arm(picks: [u8; SLOTS]) {
        unsafe {
            STATE = [0; SLOTS];
            FRESH = 0;
            PICKS = picks;
            NEXT_PICK = 0;
            REUSED = 0;
            ARMED = true;
        }
    }
    pub fn disarm() {
        unsafe { ARMED = false }
    }
    fn matches(l: &Layout) -> bool {
        unsafe { ARMED && l.size() == 16 && l.align() == 8 }
    }
    unsafe fn take() -> *mut u8 {
        let pick = if NEXT_PICK < SLOTS { PICKS[NEXT_PICK] as usize } else { SLOTS };
        NEXT_PICK += 1;
        if pick < SLOTS && STATE[pick] == 2 {
            STATE[pick] = 1;
            REUSED += 1;
            return core::ptr::addr_of_mut!(POOL[pick]) as *mut u8;
        }
        let i = FRESH;
        assert!(i < SLOTS, "node arena of the allocator model exhausted");
        FRESH += 1;
        STATE[i] = 1;
        core::ptr::addr_of_mut!(POOL[i]) as *mut u8
    }
    /// index of `p` in the arena, or SLOTS
    unsafe fn slot_of(p: *mut u8) -> usize {
        let mut i = 0;
        while i < SLOTS {
            if p == core::ptr::addr_of_mut!(POOL[i]) as *mut u8 {
                return i;
            }
            i += 1;
        }
        SLOTS
    }
    unsafe fn give_back(p: *mut u8) -> bool {
        let i = slot_of(p);
        if i == SLOTS {
            return false;
        }
        assert!(STATE[i] == 1, "a stack node was freed twice");
        STATE[i] = 2;
        true
    }

    #[cfg(kani)]
    extern "Rust" {
        fn __rust_alloc(size: usize, align: usize) -> *mut u8;
        fn __rust_dealloc(ptr: *mut u8, size: usize, align: usize);
    }
    #[cfg(kani)]
    pub unsafe fn alloc_stub(layout: Layout) -> *mut u8 {
        if matches(&layout) { take() } else { __rust_alloc(layout.size(), layout.align()) }
    }
    #[cfg(kani)]
    pub unsafe fn dealloc_stub(ptr: *mut u8, layout: Layout) {
        if !(layout.size() == 16 && layout.align() == 8 && give_back(ptr)) {
            __rust_dealloc(ptr, layout.size(), layout.align())
        }
    }

    /// `Box` frees go through `<Global as Allocator>::deallocate`, into which std's `dealloc` is already
    /// inlined - so this method is the one to replace.
    #[cfg(kani)]
    pub unsafe fn global_deallocate_stub(_g: &std::alloc::Global, ptr: core::ptr::NonNull<u8>, layout: Layout) {
        if layout.size() != 0 && !(layout.size() == 16 && layout.align() == 8 && give_back(ptr.as_ptr())) {
            __rust_dealloc(ptr.as_ptr(), layout.size(), layout.align())
        }
    }

    // (only one global allocator per crate: when C15's limit allocator is compiled in as well - the
    // all_props convenience build - this one is left out; the C08 check enables p_c08 only)
    #[cfg(all(not(kani), not(feature = "p_c15")))]
    mod native {
        use std::alloc::{GlobalAlloc, Layout, System};
        pub struct Recycling;
        unsafe impl GlobalAlloc for Recycling {
            unsafe fn alloc(&self, l: Layout) -> *mut u8 {
                if super::matches(&l) { super::take() } else { System.alloc(l) }
            }
            unsafe fn dealloc(&self, p: *mut u8, l: Layout) {
                if !(l.size() == 16 && l.align() == 8 && super::give_back(p)) {
                    System.dealloc(p, l)
                }
            }
        }
        #[global_allocator]
        static GLOBAL: Recycling = Recycling;
    }
}

/// Same scenario as `treiber`, with stack nodes allocated by the recycling allocator model.
fn treiber_recycle(a_pop: bool, point: u32, k: u32) {
    let picks: [u8; 8] = vany();
    let st = Stack::new();
    recycle::arm(picks);
    st.push(1);
    st.push(2);
    unsafe {
        TRE = Tre { stack: &st, point, fired: false, k, next_val: 4, seen: [0; 8], b_ops: 0 };
    }
    set_sched_hook(tre_hook);
    if a_pop {
        tre_record(st.pop());
    } else {
        st.push(3);
    }
    clear_sched_hook();
    tre_record(st.pop());
    tre_record(st.pop());
    tre_record(st.pop());
    tre_record(st.pop());
    tre_record(st.pop());
    tre_record(st.pop());
    assert!(st.is_empty(), "stack longer than everything ever pushed (cycle)");
    recycle::disarm();
    let pushed_by_b = unsafe { TRE.next_val } - 4;
    let seen = unsafe { TRE.seen };
    assert!(seen[1] == 1 && seen[2] == 1, "a pre-loaded element was lost");
    assert!(seen[3] == if a_pop { 0 } else { 1 }, "A's element was lost or invented");
    assert!(seen[4] == if pushed_by_b >= 1 { 1 } else { 0 }, "B's element was lost or invented");
    assert!(seen[5] == if pushed_by_b >= 2 { 1 } else { 0 }, "B's element was lost or invented");
    assert!(seen[6] == if pushed_by_b >= 3 { 1 } else { 0 }, "B's element was lost or invented");
    zcover!(unsafe { recycle::REUSED } >= 1, "opt: a freed node address was handed out again");
    zcover!(unsafe { TRE.b_ops } >= 2, "interference ran two operations");
    forget(st);
}

macro_rules! c08_treiber_recycle {
    ($name:ident, $tier:ident, $unwind:literal, $apop:literal, $point:literal, $k:literal) => {
        zv_harness! {
            name: $name,
            prop: "C08",
            tier: $tier,
            unwind: $unwind,
            stubs: [alloc::fmt::format => crate::common::stubs::fmt_format,
                    std::alloc::alloc => crate::c08_concurrent::recycle::alloc_stub,
                    <std::alloc::Global as core::alloc::Allocator>::deallocate => crate::c08_concurrent::recycle::global_deallocate_stub],
            targets: "memory::secure_pool::LockFreeStack::<u64>::{push,pop} with an allocator that recycles freed node addresses (ABA); schedule points 101,102,111,112",
            bounds: "as c08_treiber_*, plus: every node allocation takes a fresh block or ANY previously freed block of an 8-block arena (solver's choice per allocation); K = last instance arg interfering operations at ONE schedule point",
            oracle: "no element handed out twice, multiset popped+drained == pushed, no node freed twice, stack empties after a bounded drain",
            body: { treiber_recycle($apop, $point, $k) }
        }
    };
}
c08_treiber_recycle!(c08_treiber_recycle_pop_at112_k3, quick, 9, true, 112, 3);
c08_treiber_recycle!(c08_treiber_recycle_pop_at111_k3, quick, 9, true, 111, 3);
c08_treiber_recycle!(c08_treiber_recycle_push_at102_k3, quick, 9, false, 102, 3);

// ---------------------------------------------------------------- LockFreeMemoryPool fast bins
use std::ptr::NonNull;
use zipora::memory::lockfree_pool::{BackoffStrategy, LockFreeMemoryPool, LockFreePoolConfig};

const LF_SIZE: usize = 16;

struct Lf {
    pool: *const LockFreeMemoryPool,
    point: u32,
    fired: bool,
    k: u32,
    /// blocks currently owned by thread B
    b_held: [Option<NonNull<u8>>; 4],
    b_ops: u32,
}
static mut LF: Lf = Lf { pool: core::ptr::null(), point: 0, fired: false, k: 0, b_held: [None; 4], b_ops: 0 };

/// One complete operation of B: nothing, allocate (keep the block), or free the oldest block held.
unsafe fn lf_b_op() {
    let op: u8 = vany();
    assume(op < 3);
    if op == 0 {
        return;
    }
    let pool = &*LF.pool;
    LF.b_ops += 1;
    if op == 1 {
        let r = pool.allocate(LF_SIZE);
        match r {
            Ok(p) => {
                let mut i = 0;
                while i < 4 {
                    if LF.b_held[i].is_none() {
                        LF.b_held[i] = Some(p);
                        break;
                    }
                    i += 1;
                }
            }
            Err(e) => forget(e),
        }
    } else {
        let mut i = 0;
        while i < 4 {
            if let Some(p) = LF.b_held[i].take() {
                let r = pool.deallocate(p, LF_SIZE);
                forget(r);
                break;
            }
            i += 1;
        }
    }
}

fn lf_hook(id: u32) {
    unsafe {
        if id != LF.point || LF.fired {
            return;
        }
        LF.fired = true;
        if LF.k >= 1 { lf_b_op(); }
        if LF.k >= 2 { lf_b_op(); }
        if LF.k >= 3 { lf_b_op(); }
        if LF.k >= 4 { lf_b_op(); }
    }
}

/// Free list pre-loaded with three 16-byte blocks; A allocates (a_alloc) or frees a block it owns,
/// B interferes once at `point`; afterwards every block is owned by at most one party and the
/// free list hands out nothing that is still owned.
fn lfpool_sched(a_alloc: bool, point: u32, k: u32) {
    let cfg = LockFreePoolConfig {
        memory_size: 512,
        enable_stats: false,
        max_cas_retries: 2,
        backoff_strategy: BackoffStrategy::None,
        enable_cache_alignment: false,
        cache_config: None,
        enable_numa_awareness: false,
        enable_huge_pages: false,
        huge_page_threshold: 2 * 1024 * 1024,
        enable_simd_optimization: false,
        zero_on_free: false,
    };
    let pool = match LockFreeMemoryPool::new(cfg) { Ok(p) => p, Err(e) => { forget(e); return; } };
    let get = |p: &LockFreeMemoryPool| -> NonNull<u8> {
        match p.allocate(LF_SIZE) { Ok(x) => x, Err(e) => { forget(e); panic!("512-byte arena refused a 16-byte request") } }
    };
    // free list: p1 -> p2 (two blocks); thread B already owns p3, thread A owns a_own
    let (p1, p2, p3, a_own) = (get(&pool), get(&pool), get(&pool), get(&pool));
    forget(pool.deallocate(p2, LF_SIZE));
    forget(pool.deallocate(p1, LF_SIZE));
    unsafe {
        LF = Lf { pool: &pool, point, fired: false, k, b_held: [Some(p3), None, None, None], b_ops: 0 };
    }
    zipora::verif_hooks::set_sched_hook(lf_hook);
    let mut a_block: Option<NonNull<u8>> = Some(a_own);
    let mut a_second: Option<NonNull<u8>> = None;
    if a_alloc {
        match pool.allocate(LF_SIZE) { Ok(p) => a_second = Some(p), Err(e) => forget(e) }
    } else {
        let r = pool.deallocate(a_own, LF_SIZE);
        if r.is_ok() { a_block = None; }
        forget(r);
    }
    zipora::verif_hooks::clear_sched_hook();
    // quiescence: three more requests drain whatever the free list still offers
    let d = [get(&pool), get(&pool), get(&pool)];
    // ownership: A's blocks, B's blocks and the drained blocks are pairwise different addresses
    let mut all: [Option<NonNull<u8>>; 9] = [None; 9];
    all[0] = a_block;
    all[1] = a_second;
    let held = unsafe { LF.b_held };
    all[2] = held[0];
    all[3] = held[1];
    all[4] = held[2];
    all[5] = held[3];
    all[6] = Some(d[0]);
    all[7] = Some(d[1]);
    all[8] = Some(d[2]);
    let mut i = 0;
    while i < 9 {
        let mut j = i + 1;
        while j < 9 {
            if let (Some(x), Some(y)) = (all[i], all[j]) {
                assert!(x != y, "one block is owned twice (handed out while still owned, or twice from the free list)");
            }
            j += 1;
        }
        i += 1;
    }
    zcover!(unsafe { LF.b_ops } >= 1, "interference ran an operation");
    zcover!(unsafe { LF.b_ops } == 0, "opt: no interference");
    forget(pool);
}

macro_rules! c08_lfpool {
    ($name:ident, $tier:ident, $unwind:literal, $aalloc:literal, $point:literal, $k:literal) => {
        zv_harness! {
            name: $name,
            prop: "C08",
            tier: $tier,
            unwind: $unwind,
            stubs: [alloc::fmt::format => crate::common::stubs::fmt_format],
            targets: "memory::lockfree_pool::LockFreeMemoryPool::{allocate, deallocate, allocate_from_fast_bin, deallocate_to_fast_bin, pack_head, unpack_head, allocate_new_block}; schedule points 201,202 (pop) and 211,212 (push)",
            bounds: "512-byte arena, one size class (16 bytes), free list pre-loaded with 2 blocks, thread B owns a third, max_cas_retries 2; thread A: one allocate (instance arg true) or one deallocate (false); the first time A reaches ONE schedule point (arg before last) the solver runs 0..K complete allocate/deallocate operations of thread B (K = last arg); B holds at most 4 blocks; sequentially consistent atomics; unwind 66 covers the 64 fast bins built by new()",
            oracle: "after quiescence and three further allocations, all blocks owned by A, by B and just handed out are pairwise distinct addresses (no block owned twice, no owned block still on the free list); CBMC pointer checks on every free-list link",
            body: { lfpool_sched($aalloc, $point, $k) }
        }
    };
}
c08_lfpool!(c08_lfpool_alloc_at202_k4, thorough, 66, true, 202, 4);
c08_lfpool!(c08_lfpool_alloc_at201_k4, thorough, 66, true, 201, 4);
c08_lfpool!(c08_lfpool_free_at212_k2, thorough, 66, false, 212, 2);
c08_lfpool!(c08_lfpool_free_at211_k3, thorough, 66, false, 211, 3);


//! C08 — concurrent pool users never share a block and no block is lost.
//!
//! Interleavings are explored with *nested interference* (DESIGN.md section 3): thread A runs one
//! real operation; at every schedule point compiled into zipora (feature `zipora_verif`) the hook
//! below lets the SOLVER decide to run up to K complete real operations of thread B on the same
//! object before A resumes. Every explored run is a real sequentially consistent interleaving.
use crate::common::*;
use zipora::memory::secure_pool::verif_access::Stack;
use zipora::verif_hooks::{clear_sched_hook, set_sched_hook};

// ---------------------------------------------------------------- Treiber stack (secure_pool.rs)
struct Tre {
    stack: *const Stack,
    /// interference fires once, the first time A reaches schedule point `point`
    point: u32,
    fired: bool,
    k: u32,
    next_val: u64,
    /// how often each value 1..=7 was handed out by a pop (any thread)
    seen: [u8; 8],
    b_ops: u32,
}
static mut TRE: Tre = Tre { stack: core::ptr::null(), point: 0, fired: false, k: 0, next_val: 0, seen: [0; 8], b_ops: 0 };

fn tre_record(v: Option<u64>) {
    if let Some(v) = v {
        assert!(v >= 1 && v < 8, "popped a value that was never pushed");
        unsafe {
            TRE.seen[v as usize] += 1;
            assert!(TRE.seen[v as usize] == 1, "the same element was handed out twice");
        }
    }
}

/// One complete operation of thread B chosen by the solver: nothing, push(fresh value) or pop.
unsafe fn tre_b_op() {
    let op: u8 = vany();
    assume(op < 3);
    if op == 0 {
        return;
    }
    let st = &*TRE.stack;
    if op == 2 && st.pop_locked() {
        // B's pop would block on the pop lock held by A: not an enabled step at this point
        return;
    }
    TRE.b_ops += 1;
    if op == 1 {
        let v = TRE.next_val;
        TRE.next_val += 1;
        st.push(v);
    } else {
        tre_record(st.pop());
    }
}

fn tre_hook(id: u32) {
    unsafe {
        if id != TRE.point || TRE.fired {
            return;
        }
        TRE.fired = true;
        if TRE.k >= 1 { tre_b_op(); }
        if TRE.k >= 2 { tre_b_op(); }
        if TRE.k >= 3 { tre_b_op(); }
    }
}

/// A = one pop (a_pop) or one push, pre-loaded stack [1,2] (2 on top); B: up to K ops at `point`.
/// Unwind 3: after the single interference window nothing else changes `head`, so every
/// compare-exchange loop needs at most 2 iterations (checked by the unwinding assertions).
fn treiber(a_pop: bool, point: u32, k: u32) {
    let st = Stack::new();
    st.push(1);
    st.push(2);
    unsafe {
        TRE = Tre { stack: &st, point, fired: false, k, next_val: 4, seen: [0; 8], b_ops: 0 };
    }
    set_sched_hook(tre_hook);
    if a_pop {
        tre_record(st.pop());
    } else {
        st.push(3);
    }
    clear_sched_hook();
    // quiescence: drain (at most 2 + 1 + 3 = 6 nodes can be present); every pushed value must
    // come out exactly once overall
    tre_record(st.pop());
    tre_record(st.pop());
    tre_record(st.pop());
    tre_record(st.pop());
    tre_record(st.pop());
    tre_record(st.pop());
    assert!(st.is_empty(), "stack longer than everything ever pushed (cycle)");
    let pushed_by_b = unsafe { TRE.next_val } - 4;
    let seen = unsafe { TRE.seen };
    assert!(seen[1] == 1 && seen[2] == 1, "a pre-loaded element was lost");
    assert!(seen[3] == if a_pop { 0 } else { 1 }, "A's element was lost or invented");
    assert!(seen[4] == if pushed_by_b >= 1 { 1 } else { 0 }, "B's element was lost or invented");
    assert!(seen[5] == if pushed_by_b >= 2 { 1 } else { 0 }, "B's element was lost or invented");
    assert!(seen[6] == if pushed_by_b >= 3 { 1 } else { 0 }, "B's element was lost or invented");
    zcover!(unsafe { TRE.b_ops } >= 1, "interference ran an operation");
    zcover!(unsafe { TRE.b_ops } == 0, "no interference");
    forget(st);
}

macro_rules! c08_treiber {
    ($name:ident, $tier:ident, $unwind:literal, $apop:literal, $point:literal, $k:literal) => {
        zv_harness! {
            name: $name,
            prop: "C08",
            tier: $tier,
            unwind: $unwind,
            stubs: [alloc::fmt::format => crate::common::stubs::fmt_format],
            targets: "memory::secure_pool::LockFreeStack::<u64>::{push,pop} (the Treiber stack behind SecureMemoryPool::global_stack) through verif_access::Stack; schedule points 101,102,111,112",
            bounds: "stack pre-loaded with 2 nodes; thread A: one pop (instance arg true) or one push (false); the first time A reaches ONE schedule point (instance arg before last: its id) the solver runs 0..K complete push/pop operations of thread B (K = last instance arg), nesting depth 1; sequentially consistent atomics",
            oracle: "no node dereferenced after it was freed (CBMC pointer checks), no element handed out twice, multiset popped+drained == pushed, stack empties after a bounded drain (acyclic)",
            body: { treiber($apop, $point, $k) }
        }
    };
}
c08_treiber!(c08_treiber_pop_at111_k1, quick, 3, true, 111, 1);
c08_treiber!(c08_treiber_pop_at112_k1, quick, 3, true, 112, 1);
c08_treiber!(c08_treiber_push_at101_k1, quick, 3, false, 101, 1);
c08_treiber!(c08_treiber_push_at102_k1, quick, 3, false, 102, 1);
c08_treiber!(c08_treiber_pop_at111_k2, thorough, 3, true, 111, 2);
c08_treiber!(c08_treiber_pop_at112_k3, thorough, 3, true, 112, 3);
c08_treiber!(c08_treiber_push_at102_k3, thorough, 3, false, 102, 3);

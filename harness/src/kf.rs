//! Region predicates of the open known findings (see /verif/known_findings.json).
//! With cargo feature `kf_<id>` the main query assumes the region away (so any *other*
//! violation is still a fresh counterexample) and a twin harness restricted to the region is
//! expected to stay satisfiable.
#![allow(dead_code)]

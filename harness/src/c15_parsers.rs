//! C15 — decoders and loaders reject malformed bytes with an error, never a crash.
//!
//! One harness per parser. Input = fully symbolic `[u8; N]` (N concrete per instance). The
//! assertion is Kani's built-in checking of the REAL parser code (panic, arithmetic overflow,
//! out-of-bounds / dangling access) plus the unwinding assertion; the return value is free
//! (`Ok` or `Err`), two covers witness that both outcomes are reachable where they exist.
//! Harnesses named `c15_alloc_*` additionally bound every heap allocation made while parsing
//! by `64 * N + 4096` bytes ("allocation proportional to an unvalidated length field").
use crate::common::*;
use zipora::io::var_int::VarInt;
use zipora::io::var_int_variants::{VarIntEncoder, VarIntStrategy};
use zipora::io::{DataInput, SliceDataInput};

// ---------------------------------------------------------------------------------------------
// Allocation limit (generic helper, local to this module — candidate for common/).
// Under Kani: `std::alloc::{alloc, alloc_zeroed, realloc}` are stubbed by the functions below,
// which assert `size <= ALLOC_LIMIT` and then call the real `__rust_*` entry points.
// Natively (counterexample replay): a global allocator wrapper aborts the process when an
// allocation exceeds the limit armed by the harness, so that the replay reproduces what the
// stub reported. The limit is 0 (= disarmed) unless a harness calls `arm_alloc_limit`.
pub mod alloc_limit {
    use core::alloc::Layout;

    #[cfg(kani)]
    static mut ALLOC_LIMIT: usize = 0;

    #[cfg(kani)]
    pub fn arm(limit: usize) {
        unsafe { ALLOC_LIMIT = limit }
    }
    #[cfg(kani)]
    fn check(size: usize) {
        let lim = unsafe { ALLOC_LIMIT };
        assert!(lim == 0 || size <= lim, "allocation larger than 64 * input length + 4096 bytes while parsing");
    }

    #[cfg(kani)]
    extern "Rust" {
        fn __rust_alloc(size: usize, align: usize) -> *mut u8;
        fn __rust_alloc_zeroed(size: usize, align: usize) -> *mut u8;
        fn __rust_realloc(ptr: *mut u8, old_size: usize, align: usize, new_size: usize) -> *mut u8;
    }
    #[cfg(kani)]
    pub unsafe fn alloc_stub(layout: Layout) -> *mut u8 {
        check(layout.size());
        unsafe { __rust_alloc(layout.size(), layout.align()) }
    }
    #[cfg(kani)]
    pub unsafe fn alloc_zeroed_stub(layout: Layout) -> *mut u8 {
        check(layout.size());
        unsafe { __rust_alloc_zeroed(layout.size(), layout.align()) }
    }
    #[cfg(kani)]
    pub unsafe fn realloc_stub(ptr: *mut u8, layout: Layout, new_size: usize) -> *mut u8 {
        check(new_size);
        unsafe { __rust_realloc(ptr, layout.size(), layout.align(), new_size) }
    }

    #[cfg(not(kani))]
    mod native {
        use std::alloc::{GlobalAlloc, Layout, System};
        use std::sync::atomic::{AtomicUsize, Ordering};
        pub static LIMIT: AtomicUsize = AtomicUsize::new(0);
        pub struct LimitAlloc;
        #[inline]
        fn check(size: usize) {
            let lim = LIMIT.load(Ordering::Relaxed);
            if lim != 0 && size > lim {
                LIMIT.store(0, Ordering::Relaxed);
                eprintln!("ZV_ALLOC_LIMIT exceeded: allocation of {} bytes > limit {}", size, lim);
                std::process::abort();
            }
        }
        unsafe impl GlobalAlloc for LimitAlloc {
            unsafe fn alloc(&self, l: Layout) -> *mut u8 {
                check(l.size());
                unsafe { System.alloc(l) }
            }
            unsafe fn alloc_zeroed(&self, l: Layout) -> *mut u8 {
                check(l.size());
                unsafe { System.alloc_zeroed(l) }
            }
            unsafe fn realloc(&self, p: *mut u8, l: Layout, n: usize) -> *mut u8 {
                check(n);
                unsafe { System.realloc(p, l, n) }
            }
            unsafe fn dealloc(&self, p: *mut u8, l: Layout) {
                unsafe { System.dealloc(p, l) }
            }
        }
        #[global_allocator]
        static A: LimitAlloc = LimitAlloc;
    }
    #[cfg(not(kani))]
    pub fn arm(limit: usize) {
        native::LIMIT.store(limit, std::sync::atomic::Ordering::Relaxed);
    }
}

const fn alloc_budget(n: usize) -> usize {
    64 * n + 4096
}

// ---------------------------------------------------------------------------------------------
// VarInt (src/io/var_int.rs)
fn varint_decode<const N: usize>() {
    let data: [u8; N] = vany();
    let r = VarInt::decode(&data);
    let ok = r.is_ok();
    if let Ok((_, c)) = &r {
        assert!(*c >= 1 && *c <= N, "VarInt::decode reports more bytes consumed than it was given");
    }
    forget(r);
    zcover!(ok || N == 0, "some input decodes");
    zcover!(!ok, "some input is rejected");
}
macro_rules! c15_varint_decode {
    ($name:ident, $tier:ident, $unwind:literal, $n:literal) => {
        zv_harness! {
            name: $name,
            prop: "C15",
            tier: $tier,
            unwind: $unwind,
            stubs: [alloc::fmt::format => crate::common::stubs::fmt_format],
            targets: "VarInt::decode",
            bounds: "every byte string of the concrete length N given by the instance; the loop runs at most min(N, 10) + 1 times",
            oracle: "no panic / overflow / out-of-bounds (Kani checks), loop bound N + 1 suffices (unwinding assertion), Ok((_, c)) implies 1 <= c <= N",
            flags: [unwind_is_violation],
            body: { varint_decode::<$n>() }
        }
    };
}
c15_varint_decode!(c15_varint_decode_n0, quick, 3, 0);
c15_varint_decode!(c15_varint_decode_n3, thorough, 5, 3);
c15_varint_decode!(c15_varint_decode_n12, quick, 14, 12);

fn varint_decode_multiple<const N: usize>() {
    let data: [u8; N] = vany();
    let r = VarInt::decode_multiple(&data);
    let ok = r.is_ok();
    forget(r);
    zcover!(ok, "some input decodes");
    zcover!(!ok, "some input is rejected");
}
macro_rules! c15_varint_multi {
    ($name:ident, $tier:ident, $unwind:literal, $n:literal) => {
        zv_harness! {
            name: $name,
            prop: "C15",
            tier: $tier,
            unwind: $unwind,
            stubs: [alloc::fmt::format => crate::common::stubs::fmt_format],
            targets: "VarInt::decode_multiple (VarInt::decode in a loop, Vec growth)",
            bounds: "every byte string of the concrete length N given by the instance; each round consumes >= 1 byte, so <= N rounds",
            oracle: "no panic / overflow / out-of-bounds (Kani checks); unwinding assertion with bound N + 2",
            flags: [unwind_is_violation],
            body: { varint_decode_multiple::<$n>() }
        }
    };
}
c15_varint_multi!(c15_varint_multi_n3, quick, 5, 3);
c15_varint_multi!(c15_varint_multi_n5, thorough, 7, 5);

zv_harness! {
    name: c15_varint_read_from_n11,
    prop: "C15",
    tier: quick,
    unwind: 13,
    stubs: [alloc::fmt::format => crate::common::stubs::fmt_format],
    targets: "VarInt::read_from over SliceDataInput (DataInput::read_var_int)",
    bounds: "every byte string of length 11, read position 0",
    oracle: "no panic / overflow / out-of-bounds (Kani checks); the reader never advances past the end",
    flags: [unwind_is_violation],
    body: {
        let data: [u8; 11] = vany();
        let mut inp = SliceDataInput::new(&data);
        let r = inp.read_var_int();
        let ok = r.is_ok();
        assert!(inp.pos() <= 11);
        forget(r);
        zcover!(ok, "some input decodes");
        zcover!(!ok, "some input is rejected");
    }
}

// ---------------------------------------------------------------------------------------------
// VarIntEncoder::decode_* (src/io/var_int_variants.rs), single values
fn vie_decode_single<const N: usize>(s: VarIntStrategy, signed: bool) {
    let enc = VarIntEncoder::new(s);
    let data: [u8; N] = vany();
    let ok;
    if signed {
        let r = enc.decode_i64(&data);
        ok = r.is_ok();
        if let Ok((_, c)) = &r {
            assert!(*c >= 1 && *c <= N, "decode_i64 reports more bytes consumed than it was given");
        }
        forget(r);
    } else {
        let r = enc.decode_u64(&data);
        ok = r.is_ok();
        if let Ok((_, c)) = &r {
            assert!(*c >= 1 && *c <= N, "decode_u64 reports more bytes consumed than it was given");
        }
        forget(r);
    }
    zcover!(ok, "opt: some input decodes (no input of some shapes does)");
    zcover!(!ok, "some input is rejected");
}
macro_rules! c15_vie_single {
    ($name:ident, $tier:ident, $unwind:literal, $strat:ident, $signed:literal, $n:literal) => {
        zv_harness! {
            name: $name,
            prop: "C15",
            tier: $tier,
            unwind: $unwind,
            stubs: [alloc::fmt::format => crate::common::stubs::fmt_format],
            targets: "VarIntEncoder::decode_u64 / decode_i64 (signed = true) for the strategy named by the instance",
            bounds: "every byte string of the concrete length N given by the instance",
            oracle: "no panic / overflow / out-of-bounds (Kani checks); unwinding assertion with bound N + 2; Ok((_, c)) implies 1 <= c <= N",
            flags: [unwind_is_violation],
            body: { vie_decode_single::<$n>(VarIntStrategy::$strat, $signed) }
        }
    };
}
c15_vie_single!(c15_vie_leb128_u64_n11, quick, 13, Leb128, false, 11);
c15_vie_single!(c15_vie_leb128_i64_n11, quick, 13, Leb128, true, 11);
c15_vie_single!(c15_vie_zigzag_i64_n11, thorough, 13, Zigzag, true, 11);
c15_vie_single!(c15_vie_prefixfree_u64_n9, quick, 11, PrefixFree, false, 9);
c15_vie_single!(c15_vie_prefixfree_i64_n5, thorough, 7, PrefixFree, true, 5);
c15_vie_single!(c15_vie_group_u64_n11, thorough, 13, GroupVarint, false, 11);
c15_vie_single!(c15_vie_group_i64_n11, thorough, 13, GroupVarint, true, 11);
c15_vie_single!(c15_vie_compact_u64_n11, thorough, 13, Compact, false, 11);
c15_vie_single!(c15_vie_compact_i64_n11, thorough, 13, Compact, true, 11);
c15_vie_single!(c15_vie_simd_u64_n11, thorough, 13, Simd, false, 11);
c15_vie_single!(c15_vie_simd_i64_n11, thorough, 13, Simd, true, 11);
c15_vie_single!(c15_vie_delta_u64_n2, thorough, 4, Delta, false, 2);

// sequences
fn vie_decode_seq<const N: usize>(s: VarIntStrategy, signed: bool, budget: usize) {
    let enc = VarIntEncoder::new(s);
    let data: [u8; N] = vany();
    alloc_limit::arm(budget);
    let ok;
    if signed {
        let r = enc.decode_i64_sequence(&data);
        ok = r.is_ok();
        forget(r);
    } else {
        let r = enc.decode_u64_sequence(&data);
        ok = r.is_ok();
        forget(r);
    }
    alloc_limit::arm(0);
    zcover!(ok, "some input decodes");
    zcover!(!ok, "some input is rejected");
}
macro_rules! c15_vie_seq {
    ($name:ident, $tier:ident, $unwind:literal, $strat:ident, $signed:literal, $n:literal) => {
        zv_harness! {
            name: $name,
            prop: "C15",
            tier: $tier,
            unwind: $unwind,
            stubs: [alloc::fmt::format => crate::common::stubs::fmt_format],
            targets: "VarIntEncoder::decode_u64_sequence / decode_i64_sequence (signed = true) for the strategy named by the instance",
            bounds: "every byte string of the concrete length N given by the instance (N >= 1; `&data[offset..]` of the empty input is well defined but uninteresting); each element consumes >= 1 byte so <= N rounds",
            oracle: "no panic (incl. Vec capacity overflow) / arithmetic overflow / out-of-bounds (Kani checks); unwinding assertion with bound N + 2",
            flags: [unwind_is_violation],
            body: { vie_decode_seq::<$n>(VarIntStrategy::$strat, $signed, 0) }
        }
    };
}
macro_rules! c15_alloc_vie_seq {
    ($name:ident, $tier:ident, $unwind:literal, $strat:ident, $signed:literal, $n:literal) => {
        zv_harness! {
            name: $name,
            prop: "C15",
            tier: $tier,
            unwind: $unwind,
            stubs: [alloc::fmt::format => crate::common::stubs::fmt_format,
                    std::alloc::alloc => crate::c15_parsers::alloc_limit::alloc_stub,
                    std::alloc::alloc_zeroed => crate::c15_parsers::alloc_limit::alloc_zeroed_stub,
                    std::alloc::realloc => crate::c15_parsers::alloc_limit::realloc_stub],
            targets: "VarIntEncoder::decode_u64_sequence / decode_i64_sequence (signed = true) for the strategy named by the instance; every heap allocation on the way",
            bounds: "every byte string of the concrete length N given by the instance",
            oracle: "every allocation made while decoding is <= 64 * N + 4096 bytes (asserted in the std::alloc::alloc/alloc_zeroed/realloc stubs), plus the Kani checks",
            flags: [unwind_is_violation],
            body: { vie_decode_seq::<$n>(VarIntStrategy::$strat, $signed, alloc_budget($n)) }
        }
    };
}
c15_vie_seq!(c15_vie_leb128_seq_u64_n3, quick, 5, Leb128, false, 3);
c15_vie_seq!(c15_vie_leb128_seq_i64_n3, thorough, 5, Leb128, true, 3);
c15_vie_seq!(c15_vie_zigzag_seq_i64_n3, probe, 5, Zigzag, true, 3);
c15_vie_seq!(c15_vie_delta_seq_u64_n3, quick, 5, Delta, false, 3);
c15_vie_seq!(c15_vie_delta_seq_i64_n3, thorough, 5, Delta, true, 3);
c15_vie_seq!(c15_vie_group_seq_u64_n3, quick, 5, GroupVarint, false, 3);
c15_vie_seq!(c15_vie_group_seq_u64_n6, probe, 8, GroupVarint, false, 6);
c15_vie_seq!(c15_vie_group_seq_i64_n3, thorough, 5, GroupVarint, true, 3);
c15_vie_seq!(c15_vie_prefixfree_seq_u64_n3, quick, 5, PrefixFree, false, 3);
c15_vie_seq!(c15_vie_prefixfree_seq_i64_n4, thorough, 6, PrefixFree, true, 4);
c15_vie_seq!(c15_vie_compact_seq_u64_n3, thorough, 5, Compact, false, 3);
c15_vie_seq!(c15_vie_compact_seq_i64_n3, probe, 5, Compact, true, 3);
c15_vie_seq!(c15_vie_simd_seq_u64_n3, thorough, 5, Simd, false, 3);
c15_vie_seq!(c15_vie_simd_seq_i64_n3, probe, 5, Simd, true, 3);
// 10-11 bytes: the count can reach 2^63 and beyond (Vec capacity overflow), values reach u64::MAX
c15_vie_seq!(c15_vie_leb128_seq_u64_n10, thorough, 12, Leb128, false, 10);
c15_vie_seq!(c15_vie_group_seq_u64_n10, probe, 12, GroupVarint, false, 10);
c15_vie_seq!(c15_vie_prefixfree_seq_u64_n10, thorough, 12, PrefixFree, false, 10);
c15_vie_seq!(c15_vie_delta_seq_i64_n12, thorough, 14, Delta, true, 12);
c15_alloc_vie_seq!(c15_alloc_vie_leb128_seq_u64_n3, quick, 5, Leb128, false, 3);
c15_alloc_vie_seq!(c15_alloc_vie_leb128_seq_i64_n3, thorough, 5, Leb128, true, 3);
c15_alloc_vie_seq!(c15_alloc_vie_delta_seq_u64_n3, thorough, 5, Delta, false, 3);
c15_alloc_vie_seq!(c15_alloc_vie_delta_seq_i64_n3, thorough, 5, Delta, true, 3);
c15_alloc_vie_seq!(c15_alloc_vie_group_seq_u64_n3, thorough, 5, GroupVarint, false, 3);
c15_alloc_vie_seq!(c15_alloc_vie_prefixfree_seq_u64_n3, thorough, 5, PrefixFree, false, 3);
c15_alloc_vie_seq!(c15_alloc_vie_prefixfree_seq_i64_n3, thorough, 5, PrefixFree, true, 3);

// ---------------------------------------------------------------------------------------------
// hex (src/string/hex.rs)
use zipora::string::{hex_decode, hex_decode_bytes, hex_decode_to_slice};

fn hex_bytes<const N: usize>() {
    let data: [u8; N] = vany();
    let r = hex_decode_bytes(&data);
    let ok = r.is_ok();
    if let Ok(v) = &r {
        assert!(v.len() == N / 2, "hex_decode_bytes produced a wrong number of bytes");
    }
    forget(r);
    // into a caller buffer that may be too short
    let mut out = [0u8; 2];
    let olen: usize = vany();
    assume(olen <= 2);
    let r2 = hex_decode_to_slice(&data, &mut out[..olen]);
    if let Ok(w) = &r2 {
        assert!(*w <= olen, "hex_decode_to_slice reports more bytes than the buffer holds");
    }
    let ok2 = r2.is_ok();
    forget(r2);
    zcover!(ok == (N % 2 == 0), "hex_decode_bytes accepts some even-length input / rejects odd length");
    zcover!(!ok, "some input is rejected");
    zcover!(ok2 == (N % 2 == 0), "hex_decode_to_slice outcome");
}
macro_rules! c15_hex_bytes {
    ($name:ident, $tier:ident, $unwind:literal, $n:literal) => {
        zv_harness! {
            name: $name,
            prop: "C15",
            tier: $tier,
            unwind: $unwind,
            stubs: [alloc::fmt::format => crate::common::stubs::fmt_format],
            targets: "string::hex::hex_decode_bytes, hex_decode_to_slice (output buffer of symbolic length 0..2)",
            bounds: "every byte string of the concrete length N given by the instance (N <= 4)",
            oracle: "no panic / overflow / out-of-bounds (Kani checks); unwinding assertion (bound N + 2 covers the N/2 chunk rounds); Ok lengths are N/2 and fit the buffer",
            flags: [unwind_is_violation],
            body: { hex_bytes::<$n>() }
        }
    };
}
c15_hex_bytes!(c15_hex_bytes_n3, quick, 6, 3);
c15_hex_bytes!(c15_hex_bytes_n4, quick, 6, 4);

zv_harness! {
    name: c15_hex_str_n4,
    prop: "C15",
    tier: thorough,
    unwind: 6,
    stubs: [alloc::fmt::format => crate::common::stubs::fmt_format],
    targets: "string::hex::hex_decode (&str entry point)",
    bounds: "every ASCII string (bytes < 0x80) of length 4",
    oracle: "no panic / overflow / out-of-bounds (Kani checks); unwinding assertion",
    flags: [unwind_is_violation],
    body: {
        let data: [u8; 4] = vany();
        assume(data[0] < 0x80 && data[1] < 0x80 && data[2] < 0x80 && data[3] < 0x80);
        let s = unsafe { core::str::from_utf8_unchecked(&data) };
        let r = hex_decode(s);
        let ok = r.is_ok();
        forget(r);
        zcover!(ok, "some input decodes");
        zcover!(!ok, "some input is rejected");
    }
}

// ---------------------------------------------------------------------------------------------
// base64 (src/system/base64.rs — thin wrapper over the `base64` crate)
use zipora::system::base64::{base64_decode_simd, AdaptiveBase64, Base64Config};

fn base64_any<const N: usize>(adaptive: bool) {
    let data: [u8; N] = vany();
    let mut i = 0;
    while i < N {
        assume(data[i] < 0x80);
        i += 1;
    }
    let s = unsafe { core::str::from_utf8_unchecked(&data) };
    let ok;
    if adaptive {
        let cfg = Base64Config { url_safe: vany(), padding: vany(), force_implementation: None };
        let codec = AdaptiveBase64::with_config(cfg);
        let r = codec.decode(s);
        ok = r.is_ok();
        if let Ok(v) = &r {
            assert!(v.len() <= (N * 3) / 4, "more bytes decoded than the input can carry");
        }
        forget(r);
    } else {
        let r = base64_decode_simd(s);
        ok = r.is_ok();
        if let Ok(v) = &r {
            assert!(v.len() <= (N * 3) / 4, "more bytes decoded than the input can carry");
        }
        forget(r);
    }
    zcover!(ok, "opt: some input decodes (no input of some shapes does)");
    zcover!(!ok, "some input is rejected");
}
macro_rules! c15_base64 {
    ($name:ident, $tier:ident, $unwind:literal, $adaptive:literal, $n:literal) => {
        zv_harness! {
            name: $name,
            prop: "C15",
            tier: $tier,
            unwind: $unwind,
            stubs: [alloc::fmt::format => crate::common::stubs::fmt_format],
            targets: "system::base64::base64_decode_simd (adaptive = false) / AdaptiveBase64::decode with a symbolic (url_safe, padding) configuration (adaptive = true); both wrap base64::Engine::decode",
            bounds: "every ASCII string (bytes < 0x80) of the concrete length N given by the instance",
            oracle: "no panic / overflow / out-of-bounds in the wrapper and the base64 crate (Kani checks); decoded length <= 3N/4",
            body: { base64_any::<$n>($adaptive) }
        }
    };
}
c15_base64!(c15_base64_simd_n4, quick, 10, false, 4);
c15_base64!(c15_base64_adaptive_n4, thorough, 10, true, 4);
c15_base64!(c15_base64_simd_n5, thorough, 12, false, 5);

// ---------------------------------------------------------------------------------------------
// PA-Zip match stream (src/compression/dict_zip/compression_types.rs)
use zipora::compression::dict_zip::compression_types::{decode_match, decode_matches, BitReader};

fn bitreader<const N: usize>() {
    let data: [u8; N] = vany();
    let mut rd = BitReader::new(&data);
    let mut k = 0;
    let mut any_ok = false;
    let mut any_err = false;
    while k < 3 {
        let bits: u8 = vany();
        let before = rd.bit_position();
        let avail = rd.has_bits(bits);
        let r = rd.read_bits(bits);
        match &r {
            Ok(v) => {
                any_ok = true;
                assert!(bits <= 32);
                assert!(bits == 32 || (*v as u64) < (1u64 << bits), "read_bits returned more bits than requested");
                assert!(rd.bit_position() == before + bits as usize, "bit position did not advance by the bits read");
                assert!(avail, "has_bits said no but read_bits delivered");
            }
            Err(_) => {
                any_err = true;
            }
        }
        forget(r);
        assert!(rd.bit_position() <= 8 * N, "bit position beyond the end of the data");
        k += 1;
    }
    zcover!(any_ok && any_err, "a successful read followed/preceded by a refused one");
}
macro_rules! c15_bitreader {
    ($name:ident, $tier:ident, $unwind:literal, $n:literal) => {
        zv_harness! {
            name: $name,
            prop: "C15",
            tier: $tier,
            unwind: $unwind,
            stubs: [alloc::fmt::format => crate::common::stubs::fmt_format],
            targets: "BitReader::new, read_bits, has_bits, bit_position",
            bounds: "every byte string of the concrete length N given by the instance; three reads with fully symbolic bit counts (0..=255)",
            oracle: "no panic / overflow / out-of-bounds (Kani checks); a successful read returns < 2^bits, advances the position by exactly `bits`, stays within 8N bits, and was announced by has_bits",
            flags: [unwind_is_violation],
            body: { bitreader::<$n>() }
        }
    };
}
c15_bitreader!(c15_bitreader_n5, quick, 8, 5);
c15_bitreader!(c15_bitreader_n9, thorough, 12, 9);

fn match_one<const N: usize>() {
    let data: [u8; N] = vany();
    let mut rd = BitReader::new(&data);
    let r = decode_match(&mut rd);
    let ok = r.is_ok();
    if let Ok((_, bits)) = &r {
        assert!(*bits >= 8 && *bits <= 8 * N, "decode_match reports more bits consumed than it was given");
    }
    forget(r);
    zcover!(ok, "some input decodes");
    zcover!(!ok, "some input is rejected");
}
macro_rules! c15_decode_match {
    ($name:ident, $tier:ident, $unwind:literal, $n:literal) => {
        zv_harness! {
            name: $name,
            prop: "C15",
            tier: $tier,
            unwind: $unwind,
            stubs: [alloc::fmt::format => crate::common::stubs::fmt_format],
            targets: "compression_types::decode_match (all 8 compression types, decode_variable_length, Match::validate) over BitReader",
            bounds: "every byte string of the concrete length N given by the instance",
            oracle: "no panic / arithmetic overflow / out-of-bounds (Kani checks); Ok((_, bits)) implies 8 <= bits <= 8N",
            flags: [unwind_is_violation],
            body: { match_one::<$n>() }
        }
    };
}
c15_decode_match!(c15_decode_match_n2, quick, 8, 2);
c15_decode_match!(c15_decode_match_n7, quick, 10, 7);
c15_decode_match!(c15_decode_match_n9, thorough, 12, 9);

fn match_many<const N: usize>() {
    let data: [u8; N] = vany();
    let r = decode_matches(&data);
    let ok = r.is_ok();
    if let Ok((v, bits)) = &r {
        assert!(v.len() <= N && *bits <= 8 * N, "decode_matches reports more than it was given");
    }
    forget(r);
    zcover!(ok, "some input decodes");
    zcover!(!ok, "some input is rejected");
}
macro_rules! c15_decode_matches {
    ($name:ident, $tier:ident, $unwind:literal, $n:literal) => {
        zv_harness! {
            name: $name,
            prop: "C15",
            tier: $tier,
            unwind: $unwind,
            stubs: [alloc::fmt::format => crate::common::stubs::fmt_format],
            targets: "compression_types::decode_matches (decode_match in a loop until fewer than 3 bits remain)",
            bounds: "every byte string of the concrete length N given by the instance; every match takes >= 8 bits so <= N rounds",
            oracle: "no panic / arithmetic overflow / out-of-bounds (Kani checks); unwinding assertion; <= N matches and <= 8N bits reported",
            flags: [unwind_is_violation],
            body: { match_many::<$n>() }
        }
    };
}
c15_decode_matches!(c15_decode_matches_n2, probe, 8, 2);
c15_decode_matches!(c15_decode_matches_n3, probe, 8, 3);
c15_decode_matches!(c15_decode_matches_n7, probe, 10, 7);

// ---------------------------------------------------------------------------------------------
// length-prefixed bytes / strings (src/io/data_input.rs default methods over SliceDataInput)
fn dataio_prefixed<const N: usize>(string: bool, budget: usize) {
    let data: [u8; N] = vany();
    let mut inp = SliceDataInput::new(&data);
    alloc_limit::arm(budget);
    let ok;
    if string {
        let r = inp.read_length_prefixed_string();
        ok = r.is_ok();
        forget(r);
    } else {
        let r = inp.read_length_prefixed_bytes();
        ok = r.is_ok();
        if let Ok(v) = &r {
            assert!(v.len() < N, "more payload bytes returned than the input holds");
        }
        forget(r);
    }
    alloc_limit::arm(0);
    assert!(inp.pos() <= N, "reader advanced past the end");
    zcover!(ok, "some input decodes");
    zcover!(!ok, "some input is rejected");
}
macro_rules! c15_dataio_prefixed {
    ($name:ident, $tier:ident, $unwind:literal, $string:literal, $n:literal) => {
        zv_harness! {
            name: $name,
            prop: "C15",
            tier: $tier,
            unwind: $unwind,
            stubs: [alloc::fmt::format => crate::common::stubs::fmt_format],
            targets: "DataInput::read_length_prefixed_bytes / read_length_prefixed_string (string = true) -> read_var_int, read_vec (vec![0; len]), read_bytes over SliceDataInput",
            bounds: "every byte string of the concrete length N given by the instance",
            oracle: "no panic (incl. Vec capacity overflow) / overflow / out-of-bounds (Kani checks); reader position stays <= N",
            body: { dataio_prefixed::<$n>($string, 0) }
        }
    };
}
macro_rules! c15_alloc_dataio_prefixed {
    ($name:ident, $tier:ident, $unwind:literal, $string:literal, $n:literal) => {
        zv_harness! {
            name: $name,
            prop: "C15",
            tier: $tier,
            unwind: $unwind,
            stubs: [alloc::fmt::format => crate::common::stubs::fmt_format,
                    std::alloc::alloc => crate::c15_parsers::alloc_limit::alloc_stub,
                    std::alloc::alloc_zeroed => crate::c15_parsers::alloc_limit::alloc_zeroed_stub,
                    std::alloc::realloc => crate::c15_parsers::alloc_limit::realloc_stub],
            targets: "DataInput::read_length_prefixed_bytes / read_length_prefixed_string (string = true) over SliceDataInput; every heap allocation on the way",
            bounds: "every byte string of the concrete length N given by the instance",
            oracle: "every allocation made while reading is <= 64 * N + 4096 bytes (asserted in the std::alloc stubs), plus the Kani checks",
            body: { dataio_prefixed::<$n>($string, alloc_budget($n)) }
        }
    };
}
c15_dataio_prefixed!(c15_dataio_bytes_n3, quick, 12, false, 3);
c15_dataio_prefixed!(c15_dataio_bytes_n10, quick, 12, false, 10);
c15_dataio_prefixed!(c15_dataio_string_n3, probe, 12, true, 3);
c15_alloc_dataio_prefixed!(c15_alloc_dataio_bytes_n3, quick, 12, false, 3);

// ---------------------------------------------------------------------------------------------
// complex_types / SerializableType decoders
use zipora::io::complex_types::{ComplexSerialize, ComplexTypeConfig, ComplexTypeSerializer};
use zipora::io::smart_ptr::SerializableType;

zv_harness! {
    name: c15_complex_tuple_option_n5,
    prop: "C15",
    tier: quick,
    unwind: 8,
    stubs: [alloc::fmt::format => crate::common::stubs::fmt_format],
    targets: "ComplexSerialize::deserialize_with_version for (u8, u32), Option<u16>, Result<u8, u16>, [u8; 2] over SliceDataInput",
    bounds: "every byte string of length 5 (too short for the array: 4-byte length + 2 elements), each decoder started at position 0",
    oracle: "no panic / overflow / out-of-bounds (Kani checks); reader position stays <= 5; an Option/Result marker other than 0/1 is an Err",
    flags: [unwind_is_violation],
    body: {
        let data: [u8; 5] = vany();
        let mut i1 = SliceDataInput::new(&data);
        let r1 = <(u8, u32) as ComplexSerialize>::deserialize_with_version(&mut i1, 1);
        let ok1 = r1.is_ok();
        forget(r1);
        let mut i2 = SliceDataInput::new(&data);
        let r2 = <Option<u16> as ComplexSerialize>::deserialize_with_version(&mut i2, 1);
        if data[0] > 1 {
            assert!(r2.is_err(), "invalid Option marker accepted");
        }
        let ok2 = r2.is_ok();
        forget(r2);
        let mut i3 = SliceDataInput::new(&data);
        let r3 = <Result<u8, u16> as ComplexSerialize>::deserialize_with_version(&mut i3, 1);
        if data[0] > 1 {
            assert!(r3.is_err(), "invalid Result marker accepted");
        }
        forget(r3);
        let mut i4 = SliceDataInput::new(&data);
        let r4 = <[u8; 2] as ComplexSerialize>::deserialize_with_version(&mut i4, 1);
        let ok4 = r4.is_ok();
        forget(r4);
        assert!(i1.pos() <= 5 && i2.pos() <= 5 && i3.pos() <= 5 && i4.pos() <= 5);
        zcover!(ok1 && ok2, "tuple and option decode");
        zcover!(!ok2, "option rejected");
        zcover!(!ok4, "array rejected");
    }
}

fn complex_vec<const N: usize>(budget: usize) {
    let data: [u8; N] = vany();
    let mut inp = SliceDataInput::new(&data);
    alloc_limit::arm(budget);
    let r = <Vec<u8> as SerializableType>::deserialize(&mut inp);
    alloc_limit::arm(0);
    let ok = r.is_ok();
    if let Ok(v) = &r {
        assert!(v.len() + 4 <= N, "more elements returned than the input holds");
    }
    forget(r);
    assert!(inp.pos() <= N);
    zcover!(ok, "some input decodes");
    zcover!(!ok, "some input is rejected");
}
zv_harness! {
    name: c15_complex_vec_u8_n5,
    prop: "C15",
    tier: quick,
    unwind: 7,
    stubs: [alloc::fmt::format => crate::common::stubs::fmt_format],
    targets: "SerializableType for Vec<u8>::deserialize (u32 count, Vec::with_capacity(count), element loop) over SliceDataInput",
    bounds: "every byte string of length 5 (count + at most one element)",
    oracle: "no panic / overflow / out-of-bounds (Kani checks); unwinding assertion (each element consumes a byte, so <= 2 rounds)",
    flags: [unwind_is_violation],
    body: { complex_vec::<5>(0) }
}
zv_harness! {
    name: c15_alloc_complex_vec_u8_n5,
    prop: "C15",
    tier: quick,
    unwind: 7,
    stubs: [alloc::fmt::format => crate::common::stubs::fmt_format,
            std::alloc::alloc => crate::c15_parsers::alloc_limit::alloc_stub,
            std::alloc::alloc_zeroed => crate::c15_parsers::alloc_limit::alloc_zeroed_stub,
            std::alloc::realloc => crate::c15_parsers::alloc_limit::realloc_stub],
    targets: "SerializableType for Vec<u8>::deserialize; every heap allocation on the way",
    bounds: "every byte string of length 5",
    oracle: "every allocation made while decoding is <= 64 * 5 + 4096 bytes (asserted in the std::alloc stubs), plus the Kani checks",
    flags: [unwind_is_violation],
    body: { complex_vec::<5>(alloc_budget(5)) }
}

/// Rc / Arc / Box decoders of io::smart_ptr from an arbitrary byte string (fresh context, so every
/// back-reference marker names an object that was never defined).
fn smartptr_case<const N: usize>(marker: Option<u8>) {
    use std::rc::Rc;
    use std::sync::Arc;
    let mut data: [u8; N] = vany();
    if let Some(m) = marker {
        data[0] = m;
    }
    let mut i1 = SliceDataInput::new(&data);
    let r1 = <Rc<u8> as SerializableType>::deserialize(&mut i1);
    if data[0] != 1 {
        assert!(r1.is_err(), "Rc: null / dangling back-reference / unknown marker accepted");
    }
    let ok1 = r1.is_ok();
    forget(r1);
    let mut i2 = SliceDataInput::new(&data);
    let r2 = <Arc<u8> as SerializableType>::deserialize(&mut i2);
    if data[0] != 1 {
        assert!(r2.is_err(), "Arc: null / dangling back-reference / unknown marker accepted");
    }
    forget(r2);
    let mut i3 = SliceDataInput::new(&data);
    let r3 = <Box<u8> as SerializableType>::deserialize(&mut i3);
    forget(r3);
    assert!(i1.pos() <= N && i2.pos() <= N && i3.pos() <= N);
    zcover!((data[0] == 2 || marker.map_or(false, |m| m != 2)) && !ok1, "back-reference without a definition (or the concrete marker of the instance) is rejected");
    zcover!(ok1 || marker.is_some(), "a definition decodes");
}
macro_rules! c15_smartptr {
    ($name:ident, $tier:ident, $unwind:literal, $marker:expr, $what:literal) => {
        zv_harness! {
            name: $name,
            prop: "C15",
            tier: $tier,
            unwind: $unwind,
            stubs: [alloc::fmt::format => crate::common::stubs::fmt_format,
                    std::hash::RandomState::new => crate::common::stubs::random_state_new],
            targets: "io::smart_ptr: SerializableType::deserialize for Rc<u8>, Arc<u8>, Box<u8> (SmartPtrSerialize::deserialize_with_context with a fresh DeserializationContext, so any back-reference names an undefined object) over SliceDataInput",
            bounds: $what,
            oracle: "no panic / overflow / out-of-bounds (Kani checks); Rc and Arc return Err unless the marker is 1; reader position stays <= 6",
            body: { smartptr_case::<6>($marker) }
        }
    };
}
c15_smartptr!(c15_smartptr_backref_n6, quick, 8, Some(2), "every 6-byte string whose first byte is the back-reference marker 2 (any id, any tail)");
c15_smartptr!(c15_smartptr_null_n6, quick, 8, Some(0), "every 6-byte string whose first byte is the null marker 0");
c15_smartptr!(c15_smartptr_badmarker_n6, thorough, 8, Some(0x82), "every 6-byte string whose first byte is the unknown marker 0x82");
c15_smartptr!(c15_smartptr_any_n6, probe, 8, None, "every byte string of length 6 (incl. the definition branch: DeserializationContext::store_object -> std HashMap insert)");

zv_harness! {
    name: c15_complex_serializer_n12,
    prop: "C15",
    tier: probe,
    unwind: 14,
    stubs: [alloc::fmt::format => crate::common::stubs::fmt_format],
    targets: "ComplexTypeSerializer::deserialize_from_bytes::<(u8, u32)> with metadata (type-id string + version) and deserialize_batch::<Option<u16>> without metadata",
    bounds: "every byte string of length 12",
    oracle: "no panic (incl. Vec capacity overflow) / overflow / out-of-bounds (Kani checks)",
    body: {
        let data: [u8; 12] = vany();
        let ser = ComplexTypeSerializer::new(ComplexTypeConfig::safe());
        let r = ser.deserialize_from_bytes::<(u8, u32)>(&data);
        let ok = r.is_ok();
        forget(r);
        let fast = ComplexTypeSerializer::new(ComplexTypeConfig::fast());
        let r2 = fast.deserialize_batch::<Option<u16>>(&data);
        let ok2 = r2.is_ok();
        forget(r2);
        zcover!(ok, "metadata accepted");
        zcover!(!ok && !ok2, "both rejected");
    }
}

// ---------------------------------------------------------------------------------------------
// HuffmanTree::deserialize (src/entropy/huffman.rs) — std HashMap inside, so RandomState is fixed
use zipora::entropy::huffman::HuffmanTree;

/// `std::hash::RandomState::new` stub: fixed keys (the real one reads OS randomness through FFI).
pub fn random_state_fixed() -> std::hash::RandomState {
    // SAFETY: RandomState is a plain pair of u64 keys.
    unsafe { core::mem::transmute::<(u64, u64), std::hash::RandomState>((0x0123_4567_89ab_cdef, 0x0fed_cba9_8765_4321)) }
}

fn huffman_tree<const N: usize>() {
    let data: [u8; N] = vany();
    let r = HuffmanTree::deserialize(&data);
    let ok = r.is_ok();
    forget(r);
    zcover!(ok || N < 2, "some input decodes");
    zcover!(!ok, "some input is rejected");
}
macro_rules! c15_huffman_tree {
    ($name:ident, $tier:ident, $unwind:literal, $n:literal) => {
        zv_harness! {
            name: $name,
            prop: "C15",
            tier: $tier,
            unwind: $unwind,
            stubs: [alloc::fmt::format => crate::common::stubs::fmt_format,
                    std::hash::RandomState::new => crate::c15_parsers::random_state_fixed],
            targets: "HuffmanTree::deserialize (symbol table parse, build_decoding_tree_from_codes, insert_code_into_tree)",
            bounds: "every byte string of the concrete length N given by the instance; std HashMap keyed with fixed SipHash keys",
            oracle: "no panic / overflow / out-of-bounds (Kani checks)",
            body: { huffman_tree::<$n>() }
        }
    };
}
/// A table that announces `count` entries (concrete 2-byte header), first symbol 'A', then arbitrary bytes:
/// entries cut inside the symbol, the code length or the code bytes.
fn huffman_tree_hdr<const N: usize>(count: u16) {
    let mut data: [u8; N] = vany();
    data[0] = count as u8;
    data[1] = (count >> 8) as u8;
    if N > 2 {
        // concrete first symbol: the std HashMap insert of a decoded entry hashes a concrete key
        data[2] = 0x41;
    }
    let r = HuffmanTree::deserialize(&data);
    let ok = r.is_ok();
    forget(r);
    zcover!(!ok, "some table is rejected");
}
macro_rules! c15_huffman_tree_hdr {
    ($name:ident, $tier:ident, $unwind:literal, $n:literal, $count:literal) => {
        zv_harness! {
            name: $name,
            prop: "C15",
            tier: $tier,
            unwind: $unwind,
            stubs: [alloc::fmt::format => crate::common::stubs::fmt_format,
                    std::hash::RandomState::new => crate::c15_parsers::random_state_fixed],
            targets: "HuffmanTree::deserialize: per-entry symbol / code-length / code-byte reads and their truncation checks",
            bounds: "every byte string of the concrete length N whose 2-byte entry count is the concrete COUNT of the instance and whose first symbol byte is 0x41 (args: N, COUNT); code lengths and code bytes arbitrary; std HashMap keyed with fixed SipHash keys",
            oracle: "no panic / overflow / out-of-bounds (Kani checks)",
            body: { huffman_tree_hdr::<$n>($count) }
        }
    };
}
c15_huffman_tree_hdr!(c15_huffman_tree_hdr_n4_c1, probe, 12, 4, 1);
c15_huffman_tree_hdr!(c15_huffman_tree_hdr_n5_c1, probe, 12, 5, 1);
c15_huffman_tree_hdr!(c15_huffman_tree_hdr_n6_c1, probe, 20, 6, 1);
c15_huffman_tree!(c15_huffman_tree_n1, quick, 4, 1);
c15_huffman_tree!(c15_huffman_tree_n4, probe, 12, 4);
c15_huffman_tree!(c15_huffman_tree_n5, probe, 12, 5);

//! C12 — suffix arrays order all suffixes; LCP and pattern search are exact.
use crate::common::*;
use zipora::algorithms::suffix_array::{
    EnhancedSuffixArray, LcpArray, SuffixArray, SuffixArrayAlgorithm, SuffixArrayConfig,
};

const MAXN: usize = 6;

/// suffix `a` of `t` is strictly smaller than suffix `b` (bytewise; a proper prefix is smaller)
fn suffix_less<const N: usize>(t: &[u8; N], a: usize, b: usize) -> bool {
    let mut k = 0;
    while k < N {
        let ia = a + k;
        let ib = b + k;
        if ia >= N {
            return ib < N; // a ended first: smaller unless b ended too (a == b)
        }
        if ib >= N {
            return false;
        }
        if t[ia] != t[ib] {
            return t[ia] < t[ib];
        }
        k += 1;
    }
    false
}

/// length of the common prefix of suffixes `a` and `b`
fn common_prefix<const N: usize>(t: &[u8; N], a: usize, b: usize) -> usize {
    let mut k = 0;
    let mut go = true;
    let mut h = 0;
    while k < N {
        if go && a + k < N && b + k < N && t[a + k] == t[b + k] {
            h += 1;
        } else {
            go = false;
        }
        k += 1;
    }
    h
}

/// suffix `a` of `t` starts with `p`
fn starts_with<const N: usize, const P: usize>(t: &[u8; N], a: usize, p: &[u8; P]) -> bool {
    let mut k = 0;
    while k < P {
        if a + k >= N || t[a + k] != p[k] {
            return false;
        }
        k += 1;
    }
    true
}

fn cfg(algo: SuffixArrayAlgorithm) -> SuffixArrayConfig {
    SuffixArrayConfig {
        algorithm: algo,
        use_parallel: false,
        parallel_threshold: 100_000,
        compute_lcp: false,
        optimize_small_alphabet: true,
        adaptive_threshold: 10_000,
    }
}

/// Copy the suffix array into a fixed array (one pass over the heap vector).
fn sa_copy<const N: usize>(sa: &SuffixArray) -> [usize; MAXN] {
    let s = sa.as_slice();
    assert!(s.len() == N, "suffix array length differs from the text length");
    assert!(sa.text_len() == N, "text_len differs");
    let mut out = [0usize; MAXN];
    let mut i = 0;
    while i < N {
        out[i] = s[i];
        assert!(sa.suffix_at_rank(i) == Some(s[i]), "suffix_at_rank differs from as_slice");
        i += 1;
    }
    assert!(sa.suffix_at_rank(N).is_none(), "suffix_at_rank past the end");
    out
}

/// `sa[..N]` is a permutation of 0..N and orders the suffixes of `t` strictly.
fn assert_is_suffix_array<const N: usize>(t: &[u8; N], sa: &[usize; MAXN]) {
    let mut i = 0;
    while i < N {
        assert!(sa[i] < N, "suffix array entry out of range");
        let mut j = 0;
        while j < N {
            if j < i {
                assert!(sa[j] != sa[i], "suffix array is not a permutation (duplicate entry)");
            }
            j += 1;
        }
        if i > 0 {
            assert!(suffix_less(t, sa[i - 1], sa[i]), "adjacent suffixes out of lexicographic order");
        }
        i += 1;
    }
}

fn build_check<const N: usize>(algo: SuffixArrayAlgorithm) {
    build_check_alpha::<N>(algo, 256)
}

/// `alpha` < 256: bytes are assumed below `alpha` and `optimize_small_alphabet` is switched off, so
/// SA-IS sizes its bucket tables by the largest byte instead of 256 (keeps its loops short).
fn build_check_alpha<const N: usize>(algo: SuffixArrayAlgorithm, alpha: usize) {
    let t: [u8; N] = vany();
    let mut c = cfg(algo);
    if alpha < 256 {
        let mut i = 0;
        while i < N {
            assume((t[i] as usize) < alpha);
            i += 1;
        }
        c.optimize_small_alphabet = false;
    }
    let r = SuffixArray::with_config(&t, &c);
    let sa = match r {
        Ok(sa) => sa,
        Err(e) => {
            forget(e);
            panic!("suffix array construction failed")
        }
    };
    let s = sa_copy::<N>(&sa);
    assert_is_suffix_array(&t, &s);
    zcover!(N < 2 || t[0] < t[N - 1], "first byte below last byte");
    zcover!(N < 2 || t[0] == t[N - 1], "first byte equals last byte (repetition)");
    zcover!(N < 2 || t[0] > t[N - 1], "first byte above last byte");
    forget(sa);
}

macro_rules! c12_build {
    ($name:ident, $tier:ident, $unwind:literal, $n:literal, $algo:ident) => {
        zv_harness! {
            name: $name,
            prop: "C12",
            tier: $tier,
            unwind: $unwind,
            stubs: [alloc::fmt::format => crate::common::stubs::fmt_format,
                    std::time::Instant::now => crate::common::stubs::instant_now,
                    std::time::Instant::elapsed => crate::common::stubs::instant_elapsed],
            targets: "SuffixArray::with_config -> SuffixArrayBuilder::{build, build_sequential, select_algorithm} and the construction named by the instance (SAIS: sais_construct_with_depth + classify/induce/name/rebuild; DC3, DivSufSort, LarssonSadakane: their *_construct; Adaptive: selection then DC3 for short texts); as_slice, suffix_at_rank, text_len",
            bounds: "text of N symbolic bytes (N and algorithm from the instance), every byte value; use_parallel=false; optimize_small_alphabet=true (256 buckets => unwind 257 for SAIS)",
            oracle: "as_slice has length N, is a permutation of 0..N, and every adjacent pair of suffixes is in strict lexicographic order (bytewise comparison written in the harness)",
            body: { build_check::<$n>(SuffixArrayAlgorithm::$algo) }
        }
    };
}
c12_build!(c12_sais_n2, probe, 257, 2, SAIS);
c12_build!(c12_sais_n3, probe, 257, 3, SAIS);

macro_rules! c12_sais_small {
    ($name:ident, $tier:ident, $unwind:literal, $n:literal, $alpha:literal) => {
        zv_harness! {
            name: $name,
            prop: "C12",
            tier: $tier,
            unwind: $unwind,
            stubs: [alloc::fmt::format => crate::common::stubs::fmt_format,
                    std::time::Instant::now => crate::common::stubs::instant_now,
                    std::time::Instant::elapsed => crate::common::stubs::instant_elapsed],
            targets: "SuffixArray::with_config(SAIS) -> sais_construct, sais_sort (suffix types, LMS placement, naming of LMS substrings, recursion on the reduced string), sais_induce, sais_bucket_heads/tails",
            bounds: "text of N symbolic bytes, each below ALPHA (N, ALPHA from the instance); optimize_small_alphabet=false so the bucket tables have max+2 <= ALPHA+1 entries; use_parallel=false",
            oracle: "as_slice has length N, is a permutation of 0..N, and every adjacent pair of suffixes is in strict lexicographic order",
            body: { build_check_alpha::<$n>(SuffixArrayAlgorithm::SAIS, $alpha) }
        }
    };
}
c12_sais_small!(c12_sais_alpha2_n2, probe, 8, 2, 2);
c12_sais_small!(c12_sais_alpha2_n3, probe, 8, 3, 2);
c12_sais_small!(c12_sais_alpha3_n4, probe, 9, 4, 3);
/// SA-IS on one concrete text (constant-folded by the symbolic executor: a regression witness, not a
/// for-all claim). The texts are the ones the construction got wrong before its repair plus
/// the classic examples with repeated LMS substrings (which take the recursive branch), written over
/// the alphabet {0,1,2,3} ("aba", "abab", "banana", "mississippi", "babaa").
fn sais_fixed<const N: usize>(t: &[u8; N]) {
    // bucket tables sized by the largest byte (+ sentinel) instead of 257: a handful of entries
    let mut c = cfg(SuffixArrayAlgorithm::SAIS);
    c.optimize_small_alphabet = false;
    let r = SuffixArray::with_config(&t[..], &c);
    let sa = match r {
        Ok(sa) => sa,
        Err(e) => {
            forget(e);
            panic!("suffix array construction failed")
        }
    };
    let s = sa.as_slice();
    assert!(s.len() == N, "suffix array length differs from the text length");
    let mut i = 0;
    while i < N {
        assert!(s[i] < N, "suffix array entry out of range");
        if i > 0 {
            assert!(t[s[i - 1]..] < t[s[i]..], "adjacent suffixes out of lexicographic order");
        }
        i += 1;
    }
    zcover!(true, "construction completed");
    forget(sa);
}
macro_rules! c12_sais_fixed {
    ($name:ident, $tier:ident, $unwind:literal, $text:literal) => {
        zv_harness! {
            name: $name,
            prop: "C12",
            tier: $tier,
            unwind: $unwind,
            stubs: [alloc::fmt::format => crate::common::stubs::fmt_format,
                    std::time::Instant::now => crate::common::stubs::instant_now,
                    std::time::Instant::elapsed => crate::common::stubs::instant_elapsed],
            targets: "SuffixArray::with_config(SAIS) -> sais_construct, sais_sort (incl. the recursion on the reduced string), sais_induce, optimize_small_alphabet = false (bucket tables of max byte + 2 entries)",
            bounds: "the ONE concrete text of the instance (no symbolic input: the symbolic executor runs the construction on constants); symbolic SA-IS inputs (c12_sais_n2/n3, c12_sais_alpha*) do not finish within the caps and are in the probe tier",
            oracle: "strictly increasing adjacent suffixes (which implies a permutation) and length N",
            body: { sais_fixed($text) }
        }
    };
}
c12_sais_fixed!(c12_sais_fixed_aba, quick, 14, b"\x00\x01\x00");
c12_sais_fixed!(c12_sais_fixed_abab, quick, 14, b"\x00\x01\x00\x01");
c12_sais_fixed!(c12_sais_fixed_banana, quick, 14, b"\x01\x00\x02\x00\x02\x00");
c12_sais_fixed!(c12_sais_fixed_mississippi, probe, 14, b"\x01\x00\x03\x03\x00\x03\x03\x00\x02\x02\x00");
c12_sais_fixed!(c12_sais_fixed_1010, quick, 14, b"\x01\x00\x01\x00\x00");
c12_build!(c12_dc3_n2, quick, 5, 2, DC3);
c12_build!(c12_dc3_n3, quick, 6, 3, DC3);
c12_build!(c12_dc3_n4, thorough, 7, 4, DC3);
c12_build!(c12_divsufsort_n3, quick, 6, 3, DivSufSort);
c12_build!(c12_divsufsort_n4, thorough, 7, 4, DivSufSort);
c12_build!(c12_larsson_n3, quick, 6, 3, LarssonSadakane);
c12_build!(c12_larsson_n4, thorough, 7, 4, LarssonSadakane);
c12_build!(c12_adaptive_n1, quick, 4, 1, Adaptive);
c12_build!(c12_adaptive_n3, thorough, 6, 3, Adaptive);
c12_build!(c12_adaptive_n4, thorough, 7, 4, Adaptive);

zv_harness! {
    name: c12_empty_text,
    prop: "C12",
    tier: quick,
    unwind: 4,
    stubs: [alloc::fmt::format => crate::common::stubs::fmt_format,
            std::time::Instant::now => crate::common::stubs::instant_now,
            std::time::Instant::elapsed => crate::common::stubs::instant_elapsed],
    targets: "SuffixArray::new, search, LcpArray::new, EnhancedSuffixArray::with_bwt on the empty text",
    bounds: "n = 0 (concrete); one symbolic pattern byte",
    oracle: "empty suffix array, empty LCP, empty BWT, search returns an empty range",
    body: {
        let t: [u8; 0] = [];
        let r = SuffixArray::new(&t);
        let sa = match r { Ok(sa) => sa, Err(e) => { forget(e); panic!("construction failed") } };
        assert!(sa.as_slice().is_empty() && sa.text_len() == 0 && sa.suffix_at_rank(0).is_none());
        let p: [u8; 1] = vany();
        let (_start, count) = sa.search(&t, &p);
        assert!(count == 0, "occurrence reported in the empty text");
        let l = LcpArray::new(&t, &sa);
        let lcp = match l { Ok(l) => l, Err(e) => { forget(e); panic!("LCP failed") } };
        assert!(lcp.as_slice().is_empty());
        let b = EnhancedSuffixArray::with_bwt(&t);
        let esa = match b { Ok(b) => b, Err(e) => { forget(e); panic!("BWT failed") } };
        assert!(matches!(esa.bwt(), Some(x) if x.is_empty()));
        zcover!(count == 0, "reached the end");
        forget(sa); forget(lcp); forget(esa);
    }
}

// ------------------------------------------------------------------------------------------
// LCP (Kasai) and BWT, on the default (Adaptive) construction
// ------------------------------------------------------------------------------------------

fn lcp_check<const N: usize>() {
    let t: [u8; N] = vany();
    let r = SuffixArray::with_config(&t, &cfg(SuffixArrayAlgorithm::Adaptive));
    let sa = match r {
        Ok(sa) => sa,
        Err(e) => {
            forget(e);
            panic!("suffix array construction failed")
        }
    };
    let s = sa_copy::<N>(&sa);
    let l = LcpArray::new(&t, &sa);
    let lcp = match l {
        Ok(l) => l,
        Err(e) => {
            forget(e);
            panic!("LCP construction failed")
        }
    };
    let ls = lcp.as_slice();
    assert!(ls.len() == N, "LCP array length differs from the text length");
    let mut maxl = 0;
    let mut i = 1;
    while i < N {
        let want = common_prefix(&t, s[i - 1], s[i]);
        assert!(ls[i] == want, "LCP entry differs from the common prefix of the adjacent suffixes");
        assert!(lcp.lcp_at(i) == Some(want), "lcp_at differs from as_slice");
        if want > maxl {
            maxl = want;
        }
        i += 1;
    }
    zcover!(maxl == N - 1, "LCP of n-1 reached (single repeated symbol)");
    zcover!(maxl == 0, "all adjacent suffixes differ in the first byte");
    forget(lcp);
    forget(sa);
}

fn bwt_check<const N: usize>() {
    let t: [u8; N] = vany();
    let r = EnhancedSuffixArray::with_bwt(&t);
    let esa = match r {
        Ok(x) => x,
        Err(e) => {
            forget(e);
            panic!("with_bwt failed")
        }
    };
    let s = sa_copy::<N>(esa.suffix_array());
    assert_is_suffix_array(&t, &s);
    let b = match esa.bwt() {
        Some(b) => b,
        None => panic!("BWT missing"),
    };
    assert!(b.len() == N, "BWT length differs from the text length");
    let mut i = 0;
    while i < N {
        let want = if s[i] == 0 { t[N - 1] } else { t[s[i] - 1] };
        assert!(b[i] == want, "BWT symbol is not the one preceding the suffix of that rank");
        i += 1;
    }
    zcover!(s[0] != 0, "the smallest suffix is not the whole text");
    forget(esa);
}

macro_rules! c12_derived {
    ($name:ident, $tier:ident, $unwind:literal, $f:ident, $n:literal) => {
        zv_harness! {
            name: $name,
            prop: "C12",
            tier: $tier,
            unwind: $unwind,
            stubs: [alloc::fmt::format => crate::common::stubs::fmt_format,
                    std::time::Instant::now => crate::common::stubs::instant_now,
                    std::time::Instant::elapsed => crate::common::stubs::instant_elapsed],
            targets: "lcp_check: LcpArray::new -> compute_lcp_kasai, lcp_at; bwt_check: EnhancedSuffixArray::with_bwt -> compute_bwt; both on SuffixArray built with the default Adaptive algorithm",
            bounds: "text of N symbolic bytes (N from the instance), every byte value",
            oracle: "lcp_check: LCP has length N and lcp[r] = common-prefix length of the suffixes of ranks r-1 and r for r >= 1 (entry 0 is not constrained); bwt_check: bwt[r] = byte cyclically preceding suffix sa[r]",
            body: { $f::<$n>() }
        }
    };
}
c12_derived!(c12_lcp_n3, quick, 6, lcp_check, 3);
c12_derived!(c12_lcp_n4, thorough, 7, lcp_check, 4);
c12_derived!(c12_bwt_n3, quick, 6, bwt_check, 3);
c12_derived!(c12_bwt_n4, thorough, 7, bwt_check, 4);

// ------------------------------------------------------------------------------------------
// search
// ------------------------------------------------------------------------------------------

fn search_check<const N: usize, const P: usize>() {
    let t: [u8; N] = vany();
    let p: [u8; P] = vany();
    let r = SuffixArray::with_config(&t, &cfg(SuffixArrayAlgorithm::Adaptive));
    let sa = match r {
        Ok(sa) => sa,
        Err(e) => {
            forget(e);
            panic!("suffix array construction failed")
        }
    };
    let s = sa_copy::<N>(&sa);
    let (start, count) = sa.search(&t, &p);
    let (lo, hi) = sa.search_range(&t, &p);
    assert!(lo == start && hi >= lo && hi - lo == count, "search and search_range disagree");
    assert!(start + count <= N, "search range exceeds the suffix array");
    let mut occ = 0;
    let mut i = 0;
    while i < N {
        let inside = i >= start && i < start + count;
        let m = starts_with(&t, s[i], &p);
        assert!(inside == m, "search range is not exactly the ranks whose suffix starts with the pattern");
        if m {
            occ += 1;
        }
        i += 1;
    }
    zcover!(occ == 0, "pattern absent");
    zcover!(occ >= 2, "pattern occurs at least twice");
    zcover!(occ == 1 && start > 0, "single occurrence not at rank 0");
    forget(sa);
}

macro_rules! c12_search {
    ($name:ident, $tier:ident, $unwind:literal, $n:literal, $p:literal) => {
        zv_harness! {
            name: $name,
            prop: "C12",
            tier: $tier,
            unwind: $unwind,
            stubs: [alloc::fmt::format => crate::common::stubs::fmt_format,
                    std::time::Instant::now => crate::common::stubs::instant_now,
                    std::time::Instant::elapsed => crate::common::stubs::instant_elapsed],
            targets: "SuffixArray::{search, search_range, lower_bound, upper_bound, compare_suffix_pattern} on a suffix array built with the default Adaptive algorithm",
            bounds: "text of N symbolic bytes and pattern of P symbolic bytes (N, P from the instance), every byte value",
            oracle: "(start,count) = search: rank r lies in start..start+count exactly when the suffix of rank r starts with the pattern (all and only the occurrences); search_range = (start, start+count)",
            body: { search_check::<$n, $p>() }
        }
    };
}
c12_search!(c12_search_n3_p1, quick, 6, 3, 1);
c12_search!(c12_search_n3_p2, quick, 6, 3, 2);
c12_search!(c12_search_n4_p1, thorough, 7, 4, 1);
c12_search!(c12_search_n4_p2, thorough, 7, 4, 2);

//! Environment stubs used through `#[kani::stub]` (each one is part of the claim of the
//! harness that names it; the runner lists them in evidence).
#![allow(dead_code)]

/// `alloc::fmt::format`: error-path / debug formatting is not the subject.
pub fn fmt_format(_args: core::fmt::Arguments<'_>) -> String {
    String::new()
}

/// `std::rt::thread_cleanup`: runs only at thread exit; avoids a Kani ICE.
pub fn noop() {}

/// `std::time::Instant::now`: zeroed instant (time is statistics only unless stated).
pub fn instant_now() -> std::time::Instant {
    // SAFETY: Instant is a plain (secs, nanos) pair on Linux; all-zero is a valid value.
    unsafe { core::mem::zeroed() }
}
pub fn instant_elapsed(_i: &std::time::Instant) -> std::time::Duration {
    std::time::Duration::from_secs(0)
}
pub fn systemtime_now() -> std::time::SystemTime {
    std::time::UNIX_EPOCH
}

/// `std::arch::x86_64::__cpuid_count`: all-zero (no optional CPU feature detected).
#[cfg(target_arch = "x86_64")]
pub fn cpuid_zero(_leaf: u32, _sub: u32) -> std::arch::x86_64::CpuidResult {
    std::arch::x86_64::CpuidResult { eax: 0, ebx: 0, ecx: 0, edx: 0 }
}

// ---- thread identity -------------------------------------------------------------------------
// `std::thread::current()` cannot be compiled by Kani (thread-local init + pthread keys). zipora only
// ever calls `.id()` on the result, so: a leaked fake handle (an `Arc` header with a huge strong
// count, so clone/drop never free it) and a `Thread::id` that returns the harness-controlled id.
pub static mut CUR_TID: u64 = 1;
static mut FAKE_THREAD: [usize; 32] = {
    let mut a = [0usize; 32];
    a[0] = 1 << 40;
    a[1] = 1;
    a
};
pub fn thread_current() -> std::thread::Thread {
    // SAFETY: `Thread` is a single non-null pointer to an Arc allocation; only its counts are touched.
    unsafe { core::mem::transmute::<*const usize, std::thread::Thread>(core::ptr::addr_of!(FAKE_THREAD) as *const usize) }
}
pub fn thread_id(_t: &std::thread::Thread) -> std::thread::ThreadId {
    // SAFETY: ThreadId is a NonZero<u64>; CUR_TID is never 0.
    unsafe { core::mem::transmute::<u64, std::thread::ThreadId>(CUR_TID) }
}

/// Native replay only: make the process-wide CPU feature record the one the harness instance
/// substitutes under Kani (`get_cpu_features => f`), through the guarded hook
/// `zipora::system::cpu_features::verif_set_cpu_features`, so that a counterexample found for a
/// modelled CPU tier is replayed on that tier. No effect under Kani (the stub is in force there).
#[allow(unused_variables)]
pub fn native_tier(f: fn() -> &'static zipora::system::cpu_features::CpuFeatures) {
    #[cfg(not(kani))]
    {
        let _ = zipora::system::cpu_features::verif_set_cpu_features(f().clone());
    }
}

/// `core::slice::memchr::memchr` as its definition (first index holding `x`); std's version scans
/// word-at-a-time from an alignment-dependent start, which multiplies symbolic-execution paths.
pub fn memchr_naive(x: u8, text: &[u8]) -> Option<usize> {
    let mut i = 0;
    while i < text.len() {
        if text[i] == x {
            return Some(i);
        }
        i += 1;
    }
    None
}

/// `core::str::from_utf8` for harnesses whose inputs are ASCII by construction: asserts that and
/// skips std's alignment-dependent word-at-a-time validator.
pub fn from_utf8_ascii(v: &[u8]) -> Result<&str, core::str::Utf8Error> {
    let mut i = 0;
    while i < v.len() {
        assert!(v[i] < 0x80, "from_utf8_ascii stub used on non-ASCII input");
        i += 1;
    }
    Ok(unsafe { core::str::from_utf8_unchecked(v) })
}

/// `std::hash::RandomState::new` (reads the per-thread SipHash seed from the OS with getrandom(2)
/// on first use): a state with an arbitrary pair of keys. `RandomState` is exactly its two `u64` keys.
pub fn random_state_new() -> std::hash::RandomState {
    let keys: (u64, u64) = (crate::common::vany(), crate::common::vany());
    unsafe { core::mem::transmute::<(u64, u64), std::hash::RandomState>(keys) }
}

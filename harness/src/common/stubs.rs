//! Environment stubs used through `#[kani::stub]` (each one is part of the claim of the
//! harness that names it; the runner lists them in evidence).
#![allow(dead_code)]

/// `alloc::fmt::format`: error-path / debug formatting is not the subject.
pub fn fmt_format(_args: core::fmt::Arguments<'_>) -> String {
    String::new()
}

/// `std::rt::thread_cleanup`: runs only at thread exit; avoids a Kani ICE.
pub fn noop() {}

/// `std::time::Instant::now`: zeroed instant (time is statistics only unless stated).
pub fn instant_now() -> std::time::Instant {
    // SAFETY: Instant is a plain (secs, nanos) pair on Linux; all-zero is a valid value.
    unsafe { core::mem::zeroed() }
}
pub fn instant_elapsed(_i: &std::time::Instant) -> std::time::Duration {
    std::time::Duration::from_secs(0)
}
pub fn systemtime_now() -> std::time::SystemTime {
    std::time::UNIX_EPOCH
}

/// `std::arch::x86_64::__cpuid_count`: all-zero (no optional CPU feature detected).
#[cfg(target_arch = "x86_64")]
pub fn cpuid_zero(_leaf: u32, _sub: u32) -> std::arch::x86_64::CpuidResult {
    std::arch::x86_64::CpuidResult { eax: 0, ebx: 0, ecx: 0, edx: 0 }
}

//! Symbolic-value shim: `vany::<T>()` is `kani::any()` under Kani and pops the next
//! value from a replay buffer (`$ZV_REPLAY`, JSON list of byte vectors, the format of
//! Kani's concrete playback) in a native build, so a harness function is its own
//! native reproducer.

pub trait Sym: Sized {
    fn sym() -> Self;
}

#[inline(always)]
pub fn vany<T: Sym>() -> T {
    T::sym()
}

#[cfg(not(kani))]
mod native {
    use std::cell::RefCell;
    thread_local! {
        static BUF: RefCell<Option<(Vec<Vec<u8>>, usize)>> = const { RefCell::new(None) };
    }
    fn load() -> (Vec<Vec<u8>>, usize) {
        let p = match std::env::var("ZV_REPLAY") {
            Ok(p) => p,
            Err(_) => {
                println!("ZV_NO_REPLAY");
                std::process::exit(78)
            }
        };
        let s = std::fs::read_to_string(&p).expect("read ZV_REPLAY");
        // minimal JSON parser for [[n,n,...],...]
        let mut out: Vec<Vec<u8>> = Vec::new();
        let mut cur: Option<Vec<u8>> = None;
        let mut num: Option<u32> = None;
        let mut depth = 0;
        for c in s.chars() {
            match c {
                '[' => {
                    depth += 1;
                    if depth == 2 {
                        cur = Some(Vec::new());
                    }
                }
                ']' => {
                    if let (Some(n), Some(v)) = (num.take(), cur.as_mut()) {
                        v.push(n as u8);
                    }
                    if depth == 2 {
                        out.push(cur.take().unwrap());
                    }
                    depth -= 1;
                }
                ',' => {
                    if let (Some(n), Some(v)) = (num.take(), cur.as_mut()) {
                        v.push(n as u8);
                    }
                }
                d if d.is_ascii_digit() => {
                    num = Some(num.unwrap_or(0) * 10 + d.to_digit(10).unwrap());
                }
                _ => {}
            }
        }
        (out, 0)
    }
    pub fn pop(n: usize) -> Vec<u8> {
        BUF.with(|b| {
            let mut b = b.borrow_mut();
            if b.is_none() {
                *b = Some(load());
            }
            let (v, i) = b.as_mut().unwrap();
            if *i >= v.len() {
                // a value the counterexample does not depend on may be missing from the trace:
                // any completion is valid, use zero (a violated assume() is still detected)
                println!("ZV_REPLAY_PADDED value #{} = 0", *i);
                *i += 1;
                return vec![0u8; n];
            }
            let mut x = v[*i].clone();
            *i += 1;
            x.resize(n, 0);
            x
        })
    }
}

/// Every symbolic value passes through this function: the runner finds the solver's values in the
/// CBMC trace as the actual-parameter assignments to `zv_sym_val`, in execution order. `zv_sym_seq`
/// is the running number of the call (concrete along every path): formula slicing may drop a value
/// the failed property does not depend on from the trace, and the gap in the numbering tells the
/// runner where to insert a don't-care value so that later values stay aligned.
#[cfg(kani)]
static mut ZV_SEQ: u32 = 0;
#[cfg(kani)]
#[inline(never)]
pub fn zv_rec2<T>(zv_sym_val: T, zv_sym_seq: u32) -> T {
    let _ = zv_sym_seq;
    zv_sym_val
}
#[cfg(kani)]
#[inline(always)]
pub fn zv_rec<T>(v: T) -> T {
    let n = unsafe {
        ZV_SEQ += 1;
        ZV_SEQ
    };
    zv_rec2(v, n)
}

macro_rules! impl_sym_int {
    ($($t:ty),*) => {$(
        impl Sym for $t {
            #[cfg(kani)]
            #[inline(never)]
            fn sym() -> $t { zv_rec::<$t>(kani::any()) }
            #[cfg(not(kani))]
            fn sym() -> $t {
                let b = native::pop(core::mem::size_of::<$t>());
                let mut a = [0u8; core::mem::size_of::<$t>()];
                a.copy_from_slice(&b);
                <$t>::from_le_bytes(a)
            }
        }
    )*};
}
impl_sym_int!(u8, u16, u32, u64, u128, usize, i8, i16, i32, i64, i128, isize);

impl Sym for bool {
    #[cfg(kani)]
    #[inline(never)]
    fn sym() -> bool {
        let b: u8 = kani::any();
        kani::assume(b <= 1);
        zv_rec::<u8>(b) == 1
    }
    #[cfg(not(kani))]
    fn sym() -> bool {
        native::pop(1)[0] != 0
    }
}

impl<T: Sym, const N: usize> Sym for [T; N] {
    #[inline(always)]
    fn sym() -> [T; N] {
        core::array::from_fn(|_| T::sym())
    }
}

/// `kani::assume` under Kani; natively a failed assumption means the replayed values do
/// not drive this harness (exit code 77, distinguished from an assertion failure).
#[inline(always)]
pub fn assume(b: bool) {
    #[cfg(kani)]
    kani::assume(b);
    #[cfg(not(kani))]
    if !b {
        println!("ZV_ASSUME_FAILED");
        std::process::exit(77);
    }
}

/// symbolic value in `lo..=hi`
#[inline(always)]
pub fn vrange_usize(lo: usize, hi: usize) -> usize {
    let x: usize = vany();
    assume(x >= lo && x <= hi);
    x
}

/// Forget a value without running its drop glue (drop glue of `ZiporaError` and of heap
/// containers is not the subject of any harness and is very expensive for CBMC).
#[inline(always)]
pub fn forget<T>(t: T) {
    core::mem::forget(t)
}

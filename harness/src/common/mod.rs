pub mod stubs;
pub mod sym;
pub use sym::{assume, forget, vany, vrange_usize, Sym};

//! C01 — entropy codecs are lossless: whenever encoding succeeds, the matching decoder returns
//! exactly the original bytes.
use crate::common::*;
use zipora::entropy::rans::{
    ParallelVariant, ParallelX1, ParallelX2, ParallelX4, Rans64Decoder, Rans64Encoder, Rans64State,
};

// ----------------------------------------------------------------------------- rANS tables
/// Concrete frequency tables (the table is data of the instance; byte and state are symbolic).
/// Every table has a dominant LAST symbol: `normalize_frequencies` then leaves <= 2 slots for its
/// third pass (each third-pass slot costs a 256-iteration scan; a 1:1 table needs 1024 scans and
/// did not get through symbolic execution in 10 min).
/// id 0: two symbols 1 : 4095 (bytes 0, 255)            -> slots 3 : 4093
/// id 1: three symbols 1 : 1 : 1_000_000 (bytes 7, 8, 200) -> slots 2 : 1 : 4093 (rare symbols)
/// id 2: all 256 bytes present, 1 each and byte 255 x 1_000_000 -> 255 symbols with 1..2 slots
/// id 3: single symbol (byte 65)                         -> 4096 slots
/// id 4: four symbols 3 : 5 : 7 : 10_000 (bytes 1, 2, 3, 250) -> non power-of-two slots
/// id 5: flat, all 256 bytes x 3 (third pass of the normaliser distributes ~1400 slots)
/// id 6: two symbols 1 : 1 (bytes 0, 255) (third pass distributes 1024 slots)
fn rans_table(id: u32) -> [u32; 256] {
    let mut f = [0u32; 256];
    match id {
        0 => {
            f[0] = 1;
            f[255] = 4095;
        }
        1 => {
            f[7] = 1;
            f[8] = 1;
            f[200] = 1_000_000;
        }
        2 => {
            f = [1u32; 256];
            f[255] = 1_000_000;
        }
        3 => {
            f[65] = 10;
        }
        5 => {
            f = [3u32; 256];
        }
        6 => {
            f[0] = 1;
            f[255] = 1;
        }
        _ => {
            f[1] = 3;
            f[2] = 5;
            f[3] = 7;
            f[250] = 10_000;
        }
    }
    f
}

/// One rANS step: `encode_symbol` on a symbolic byte and a symbolic state in the interval the
/// encoder maintains, then `decode_symbol` on the new state and the emitted bytes.
fn rans_step(table: u32) {
    let freqs = rans_table(table);
    let er = Rans64Encoder::<ParallelX1>::new(&freqs);
    let enc = match er {
        Ok(e) => e,
        Err(_) => panic!("encoder construction failed for a non-empty table"),
    };
    let dec = Rans64Decoder::<ParallelX1>::new(&enc);

    let b: u8 = vany();
    let s0: u64 = vany();
    // state interval [L, L<<8) = [2^16, 2^24) maintained by the encoder (post-condition below)
    assume(s0 >= (1u64 << 16) && s0 < (1u64 << 24));
    let mut st = Rans64State::from_state(s0);
    let mut out: Vec<u8> = Vec::with_capacity(8);
    let present = enc.get_symbol(b).freq != 0;
    let r = enc.encode_symbol(&mut st, b, &mut out);
    let ok = r.is_ok();
    forget(r);
    // "encoding never silently drops or substitutes a symbol": refused iff absent from the table
    assert!(ok == present, "encode_symbol must succeed exactly for symbols present in the table");
    assert!(ok == (freqs[b as usize] != 0), "a symbol with a non-zero count must keep >= 1 slot");
    if ok {
        let s1 = st.state();
        assert!(s1 >= (1u64 << 16) && s1 < (1u64 << 24), "encoder state left its interval");
        let emitted = out.len();
        let mut pos = emitted;
        let d = dec.decode_symbol(&mut st, &out, &mut pos);
        match &d {
            Ok(sym) => assert!(*sym == b, "decode_symbol returned a different symbol"),
            Err(_) => panic!("decode_symbol refused an encoder-produced state"),
        }
        forget(d);
        // the decoder refills lazily (at the start of the next step): finish the refill here
        let mut x = st.state();
        while x < (1u64 << 16) {
            assert!(pos > 0, "decoder would run out of bytes");
            pos -= 1;
            x = (x << 8) | out[pos] as u64;
        }
        assert!(x == s0, "state not restored");
        assert!(pos == 0, "decoder did not consume exactly the emitted bytes");
        zcover!(emitted >= 1, "step with renormalisation byte(s)");
        zcover!(emitted == 0, "step without renormalisation");
    }
    zcover!(ok, "present symbol");
    forget(out);
    forget(enc);
    forget(dec);
}

macro_rules! rans_step_fam {
    ($name:ident, $tier:ident, $unwind:literal, $table:literal) => {
        zv_harness! {
            name: $name,
            prop: "C01",
            tier: $tier,
            unwind: $unwind,
            stubs: [alloc::fmt::format => crate::common::stubs::fmt_format],
            targets: "Rans64Encoder::new (normalize_frequencies), Rans64Encoder::encode_symbol, Rans64Decoder::new, Rans64Decoder::decode_symbol",
            bounds: "concrete frequency table (see rans_table id), every byte 0..=255, every state in [2^16, 2^24)",
            oracle: "encode refused iff symbol absent; else new state in [2^16,2^24), decode_symbol returns the byte, refill restores the old state and consumes exactly the emitted bytes",
            cbmc: "--max-field-sensitivity-array-size 300",
            body: { rans_step($table) }
        }
    };
}
// Cost note (measured): without `cbmc: --max-field-sensitivity-array-size` the [u32; 256] tables
// are not constant-folded and `Rans64Encoder::new` does not get through symbolic execution
// (> 20 min, ~1 s per iteration of every `frequencies.iter()` loop). With 300 the constructor
// folds but still costs ~0.2-0.4 s per slice-iterator step: Encoder::new + Decoder::new ~ 13-15 min
// of symex under load, so every rANS instance that builds a table is in the thorough tier.
rans_step_fam!(c01_rans_step_skew, probe, 4100, 1);
rans_step_fam!(c01_rans_step_two, probe, 4100, 0);
rans_step_fam!(c01_rans_step_all256, probe, 3850, 2);
rans_step_fam!(c01_rans_step_single, probe, 4100, 3);
rans_step_fam!(c01_rans_step_four, probe, 4100, 4);
rans_step_fam!(c01_rans_step_flat, probe, 1100, 5);
rans_step_fam!(c01_rans_step_1to1, probe, 3100, 6);

// ----------------------------------------------------------------------------- rANS whole message
/// `encode` then `decode(.., N)` on N symbolic bytes with a concrete table (P streams).
fn rans_msg<P: ParallelVariant, const N: usize>(table: u32) {
    let freqs = rans_table(table);
    let er = Rans64Encoder::<P>::new(&freqs);
    let enc = match er {
        Ok(e) => e,
        Err(_) => panic!("encoder construction failed for a non-empty table"),
    };
    let dec = Rans64Decoder::<P>::new(&enc);
    let data: [u8; N] = vany();
    let mut all_present = true;
    let mut i = 0;
    while i < N {
        if freqs[data[i] as usize] == 0 {
            all_present = false;
        }
        i += 1;
    }
    let e = enc.encode(&data);
    match &e {
        Ok(bytes) => {
            assert!(all_present, "encode accepted a symbol that has no slot in the table");
            let d = dec.decode(bytes, N);
            match &d {
                Ok(out) => {
                    assert!(out.len() == N, "decoded length differs");
                    let mut j = 0;
                    while j < N {
                        assert!(out[j] == data[j], "decoded byte differs");
                        j += 1;
                    }
                }
                Err(_) => panic!("decode refused the encoder's output"),
            }
            forget(d);
        }
        Err(_) => assert!(!all_present, "encode refused data whose symbols all have non-zero counts"),
    }
    zcover!(e.is_ok(), "message encoded");
    if N > 0 {
        zcover!(e.is_err(), "message with an absent symbol refused");
    }
    forget(e);
    forget(enc);
    forget(dec);
}

macro_rules! rans_msg_fam {
    ($name:ident, $tier:ident, $unwind:literal, $p:ident, $n:literal, $table:literal) => {
        zv_harness! {
            name: $name,
            prop: "C01",
            tier: $tier,
            unwind: $unwind,
            stubs: [alloc::fmt::format => crate::common::stubs::fmt_format],
            targets: "Rans64Encoder::{new,encode,encode_single,encode_parallel,encode_symbol}, Rans64Decoder::{new,decode,decode_single,decode_parallel,decode_symbol}",
            bounds: "args: stream variant, N symbolic bytes, concrete table id (see rans_table); every byte string of length N",
            oracle: "encode Ok iff every byte has a non-zero count; then decode(encoded, N) == data byte for byte",
            cbmc: "--max-field-sensitivity-array-size 300",
            body: { rans_msg::<$p, $n>($table) }
        }
    };
}
rans_msg_fam!(c01_rans_msg_x1_n0, probe, 4100, ParallelX1, 0, 1);
rans_msg_fam!(c01_rans_msg_x1_n1, probe, 4100, ParallelX1, 1, 1);
rans_msg_fam!(c01_rans_msg_x1_n3, probe, 4100, ParallelX1, 3, 1);
rans_msg_fam!(c01_rans_msg_x2_n1, probe, 4100, ParallelX2, 1, 1);
rans_msg_fam!(c01_rans_msg_x2_n2, probe, 4100, ParallelX2, 2, 1);
rans_msg_fam!(c01_rans_msg_x2_n3, probe, 4100, ParallelX2, 3, 1);
rans_msg_fam!(c01_rans_msg_x4_n5, probe, 4100, ParallelX4, 5, 1);

/// Encoder built from the all-zero count table (the one constructor path without normalisation):
/// it must refuse every byte, and the empty message must round-trip.
fn rans_empty_table() {
    let freqs = [0u32; 256];
    let er = Rans64Encoder::<ParallelX1>::new(&freqs);
    let enc = match er {
        Ok(e) => e,
        Err(_) => panic!("encoder construction failed for the empty table"),
    };
    let dec = Rans64Decoder::<ParallelX1>::new(&enc);
    let b: u8 = vany();
    let r1 = enc.encode(&[b]);
    assert!(r1.is_err(), "encode accepted a symbol that has no slot");
    forget(r1);
    let r0 = enc.encode(&[]);
    match &r0 {
        Ok(bytes) => {
            let d = dec.decode(bytes, 0);
            match &d {
                Ok(out) => assert!(out.len() == 0),
                Err(_) => panic!("decode refused the empty message"),
            }
            forget(d);
        }
        Err(_) => panic!("encode refused the empty message"),
    }
    zcover!(true, "empty message round trip completed");
    forget(r0);
    forget(enc);
    forget(dec);
}

zv_harness! {
    name: c01_rans_empty_table,
    prop: "C01",
    tier: quick,
    unwind: 258,
    stubs: [alloc::fmt::format => crate::common::stubs::fmt_format],
    targets: "Rans64Encoder::new (total_freq == 0 path), Rans64Encoder::{encode,encode_single,encode_symbol}, Rans64Decoder::{new,decode}",
    bounds: "all-zero count table; one symbolic byte; the empty message",
    oracle: "encode(&[b]) is Err for every b (no silent drop); encode(&[]) is Ok and decode(.., 0) returns the empty message",
    cbmc: "--max-field-sensitivity-array-size 300",
    body: { rans_empty_table() }
}

// ----------------------------------------------------------------------------- LZ dictionary coder
use zipora::entropy::dictionary::{Dictionary, DictionaryCompressor};

/// `std::hash::RandomState::new` reads OS randomness (unsupported FFI). Fixed keys: the
/// dictionary map of `DictionaryCompressor` is never hashed into by compress/decompress.
pub fn random_state_fixed() -> std::hash::RandomState {
    // SAFETY: RandomState is two u64 keys.
    unsafe { core::mem::transmute::<[u64; 2], std::hash::RandomState>([0x0706050403020100, 0x0f0e0d0c0b0a0908]) }
}

fn dict_rt<const N: usize>(alphabet: u8) -> usize {
    let data: [u8; N] = vany();
    if alphabet != 0 {
        // small alphabet makes long repeats (the match path needs >= 10 equal bytes) likely
        let mut i = 0;
        while i < N {
            assume(data[i] < alphabet);
            i += 1;
        }
    }
    let c = DictionaryCompressor::new(Dictionary::new());
    let e = c.compress(&data);
    let enc = match &e {
        Ok(v) => v,
        Err(_) => panic!("compress failed"),
    };
    let d = c.decompress(enc);
    match &d {
        Ok(out) => {
            assert!(out.len() == N, "decompressed length differs");
            let mut j = 0;
            while j < N {
                assert!(out[j] == data[j], "decompressed byte differs");
                j += 1;
            }
        }
        Err(_) => panic!("decompress refused the compressor's output"),
    }
    let produced = enc.len();
    forget(d);
    forget(e);
    forget(c);
    produced
}

macro_rules! dict_fam {
    ($name:ident, $tier:ident, $unwind:literal, $n:literal, $alpha:literal) => {
        zv_harness! {
            name: $name,
            prop: "C01",
            tier: $tier,
            unwind: $unwind,
            stubs: [alloc::fmt::format => crate::common::stubs::fmt_format,
                    std::hash::RandomState::new => crate::c01_entropy::random_state_fixed],
            targets: "DictionaryCompressor::{new,compress,decompress} (LZ77 literal / back-reference stream)",
            bounds: "args: N symbolic bytes, alphabet bound (0 = all 256 values, k = bytes < k); every such byte string",
            oracle: "compress Ok; decompress(compress(x)) == x byte for byte",
            body: { let produced = dict_rt::<$n>($alpha); zcover!(produced == 2 * $n, "literals only"); }
        }
    };
}
// Cost note (measured): the (infeasible for N < 10) back-reference branch makes `pos` and the
// output length symbolic after the first byte: N = 1: 12 s; N = 2: > 228 s (killed by the machine
// watchdog before finishing); N = 3: > 9 GB / 300 s. The back-reference path (N >= 11) is out of
// reach for this engine.
dict_fam!(c01_dict_n0, quick, 4, 0, 0);
dict_fam!(c01_dict_n1, quick, 4, 1, 0);
dict_fam!(c01_dict_n2, probe, 5, 2, 0);
dict_fam!(c01_dict_n3, probe, 6, 3, 0);

/// Near-duplicate shape: a concrete 17-byte record, then the same record again with ONE symbolic byte
/// in the middle (index P of the copy), so the match finder sees a long match that may or may not be
/// interrupted by an isolated differing byte surrounded by equal bytes.
fn dict_near_dup<const P: usize>() {
    const REC: [u8; 17] = *b"record-0001:abcd;";
    let mut data = [0u8; 34];
    let mut i = 0;
    while i < 17 {
        data[i] = REC[i];
        data[17 + i] = REC[i];
        i += 1;
    }
    data[17 + P] = vany();
    let c = DictionaryCompressor::new(Dictionary::new());
    let e = c.compress(&data);
    let enc = match &e {
        Ok(v) => v,
        Err(_) => panic!("compress failed"),
    };
    let d = c.decompress(enc);
    match &d {
        Ok(out) => {
            assert!(out.len() == 34, "decompressed length differs");
            let mut j = 0;
            while j < 34 {
                assert!(out[j] == data[j], "decompressed byte differs");
                j += 1;
            }
        }
        Err(_) => panic!("decompress refused the compressor's output"),
    }
    zcover!(data[17 + P] != REC[P], "the copy differs from the record in that byte");
    zcover!(data[17 + P] == REC[P], "exact repeat");
    forget(d);
    forget(e);
    forget(c);
}
macro_rules! dict_near_dup_fam {
    ($name:ident, $tier:ident, $unwind:literal, $p:literal) => {
        zv_harness! {
            name: $name,
            prop: "C01",
            tier: $tier,
            unwind: $unwind,
            stubs: [alloc::fmt::format => crate::common::stubs::fmt_format,
                    std::hash::RandomState::new => crate::c01_entropy::random_state_fixed],
            targets: "DictionaryCompressor::{new,compress,decompress}: match search and match-length extension over a near-duplicate, back-reference emission and copy",
            bounds: "the 34-byte input \"record-0001:abcd;\" twice, with byte P of the second copy (instance arg) replaced by an arbitrary byte",
            oracle: "compress Ok; decompress(compress(x)) == x byte for byte",
            body: { dict_near_dup::<$p>() }
        }
    };
}
dict_near_dup_fam!(c01_dict_near_dup_p12, probe, 40, 12);
dict_near_dup_fam!(c01_dict_near_dup_p3, probe, 40, 3);
dict_near_dup_fam!(c01_dict_near_dup_p16, probe, 40, 16);

/// Decoder half of the back-reference mechanism (the encoder's match path needs >= 11 payload
/// bytes and is out of reach): a stream of LIT literals followed by one match (offset OFF, length
/// LEN, both concrete per instance, including the overlapping case LEN > OFF) must decode to the
/// LZ77 definition out[i] = out[i - OFF].
fn dict_decode_backref<const LIT: usize, const OFF: usize, const LEN: usize>() {
    let lits: [u8; LIT] = vany();
    let mut stream: Vec<u8> = Vec::with_capacity(2 * LIT + 9);
    let mut i = 0;
    while i < LIT {
        stream.push(0);
        stream.push(lits[i]);
        i += 1;
    }
    stream.push(1);
    stream.extend_from_slice(&(OFF as u32).to_le_bytes());
    stream.extend_from_slice(&(LEN as u32).to_le_bytes());
    let c = DictionaryCompressor::new(Dictionary::new());
    let d = c.decompress(&stream);
    match &d {
        Ok(out) => {
            assert!(out.len() == LIT + LEN, "decoded length differs from literals + match length");
            let mut j = 0;
            while j < LIT {
                assert!(out[j] == lits[j], "literal changed");
                j += 1;
            }
            while j < LIT + LEN {
                assert!(out[j] == out[j - OFF], "back-reference byte differs from out[i - offset]");
                j += 1;
            }
        }
        Err(_) => panic!("decompress refused a well-formed stream (offset <= bytes decoded so far)"),
    }
    zcover!(true, "stream decoded");
    forget(d);
    forget(stream);
    forget(c);
}

macro_rules! dict_dec_fam {
    ($name:ident, $tier:ident, $unwind:literal, $lit:literal, $off:literal, $len:literal) => {
        zv_harness! {
            name: $name,
            prop: "C01",
            tier: $tier,
            unwind: $unwind,
            stubs: [alloc::fmt::format => crate::common::stubs::fmt_format,
                    std::hash::RandomState::new => crate::c01_entropy::random_state_fixed],
            targets: "DictionaryCompressor::decompress (literal and back-reference records, overlapping copy)",
            bounds: "args: LIT symbolic literal bytes, then one match with concrete offset OFF <= LIT and length LEN (LEN > OFF = overlapping copy)",
            oracle: "lemma for the round trip: output = the literals followed by LEN bytes with out[i] == out[i - OFF]",
            body: { dict_decode_backref::<$lit, $off, $len>() }
        }
    };
}
dict_dec_fam!(c01_dict_dec_l1_o1_n10, quick, 14, 1, 1, 10);
dict_dec_fam!(c01_dict_dec_l3_o2_n11, quick, 16, 3, 2, 11);
dict_dec_fam!(c01_dict_dec_l3_o3_n10, quick, 16, 3, 3, 10);

// ----------------------------------------------------------------------------- FSE (rANS-style)
// Cost note: FseTable::new keeps its normalised counts in a Vec<u32> (1 KiB heap object) and the
// alias table in a 4 KiB Box<[u8]>: they are constant-folded only with
// `--max-field-sensitivity-array-size 4100` (with 300 the `while remaining > 0` loop has a symbolic
// bound and never finishes). With 4100 symbolic execution takes ~10 min under load and 7 GB, so
// every FSE instance is in the thorough tier.
use zipora::entropy::fse::{FseConfig, FseTable, HardwareCapabilities};

/// `std::io::_print`: `renormalize_encode` contains a debugging `println!`.
pub fn io_print_noop(_args: core::fmt::Arguments<'_>) {}

/// Literal config = `FseConfig::default()` except `hardware` (no CPUID probing) and
/// `entropy_optimization: false` (integer-only normalisation; the default f64/log2 normaliser is
/// outside what CBMC evaluates exactly).
fn fse_cfg() -> FseConfig {
    FseConfig {
        max_symbol: 255,
        table_log: 12,
        adaptive: true,
        min_frequency: 1,
        max_table_size: 64 * 1024,
        fast_decode: false,
        dict_size: 0,
        compression_level: 3,
        hardware: HardwareCapabilities { bmi2: false, avx2: false, prefetch: false, popcnt: false },
        parallel_blocks: None,
        entropy_optimization: false,
        block_size: 64 * 1024,
        advanced_states: false,
    }
}

/// Concrete count tables. Power-of-two totals make `normalize_frequencies_simple` exact (no
/// "distribute remaining" scans); the highest present symbol is 255 so `rposition` stops at once.
/// id 0: bytes 254, 255 with counts 1 : 3      -> slots 1024 : 3072
/// id 1: bytes 0, 9, 255 with counts 1 : 1 : 2 -> slots 1024 : 1024 : 2048
/// id 2: bytes 3, 255 with counts 1 : 4095     -> slots 1 : 4095 (freq-1 symbol)
/// id 3: bytes 0..=3 with counts 1_000_000 : 1 : 1 : 1 -> slots 4095 : 1 : 0 : 0 (present symbols
///       that the normaliser leaves without a slot)
fn fse_table_counts(id: u32) -> [u32; 256] {
    let mut f = [0u32; 256];
    match id {
        0 => {
            f[254] = 1;
            f[255] = 3;
        }
        1 => {
            f[0] = 1;
            f[9] = 1;
            f[255] = 2;
        }
        2 => {
            f[3] = 1;
            f[255] = 4095;
        }
        _ => {
            f[0] = 1_000_000;
            f[1] = 1;
            f[2] = 1;
            f[3] = 1;
        }
    }
    f
}

/// One FSE step exactly as `compress_single_internal` / `decompress_single` perform it:
/// renormalize_encode, encode_symbol | decode_symbol, renormalize_decode.
fn fse_step(table_id: u32, window: u32) -> Option<usize> {
    let counts = fse_table_counts(table_id);
    let cfg = fse_cfg();
    let tr = FseTable::new(&counts, &cfg);
    let t = match &tr {
        Ok(t) => t,
        Err(_) => panic!("FseTable::new refused a valid count table"),
    };
    let b: u8 = vany();
    let present = counts[b as usize] != 0;
    let freq = t.enc_symbols[b as usize].freq as u32;
    // "encoding never silently drops a symbol": a symbol with a non-zero count must own a slot
    assert!(!present || freq != 0, "normalisation left a present symbol without a slot");
    let mut emitted: Option<usize> = None;
    if present {
        // The encoder starts at state 1 and keeps the state below 2^48 (post-condition below).
        // The full interval makes the solver prove reciprocal-multiplication == division on 48 bits
        // (not finished in 20 min), so each instance takes a 2^16-wide window of states.
        let lo: u16 = vany();
        let s0: u64 = match window {
            0 => 1 + lo as u64,                                   // start-up states 1 ..= 2^16
            1 => ((freq as u64) << 36) - 32768 + lo as u64,       // straddles x_max = 2^36 * freq
            2 => (1u64 << 48) - 65536 + lo as u64,                // top of the interval
            3 => (1u64 << 16) - 32768 + lo as u64,                // straddles the decoder's L = 2^16
            _ => {
                let s: u64 = vany();
                assume(s >= 1 && s < (1u64 << 48));
                s
            }
        };
        let mut out: Vec<u8> = Vec::with_capacity(8);
        let x = t.renormalize_encode(s0, &mut out, freq);
        let s1 = match t.encode_symbol(b, x) {
            Some((ns, _)) => ns,
            None => panic!("encode_symbol refused a present symbol"),
        };
        assert!(s1 >= 1 && s1 < (1u64 << 48), "encoder state left its interval");
        let (sym, x2) = t.decode_symbol(s1);
        assert!(sym == b, "decode_symbol returned a different symbol");
        let mut pos = out.len();
        let s2 = match t.renormalize_decode(x2, &out, &mut pos) {
            Some(v) => v,
            None => panic!("renormalize_decode failed"),
        };
        assert!(s2 == s0, "state not restored");
        assert!(pos == 0, "decoder did not consume exactly the emitted bytes");
        emitted = Some(out.len());
        forget(out);
    }
    forget(tr);
    emitted
}

macro_rules! fse_step_fam {
    ($name:ident, $tier:ident, $unwind:literal, $table:literal, $window:literal) => {
        zv_harness! {
            name: $name,
            prop: "C01",
            tier: $tier,
            unwind: $unwind,
            stubs: [alloc::fmt::format => crate::common::stubs::fmt_format,
                    std::io::_print => crate::c01_entropy::io_print_noop],
            targets: "FseTable::new (normalize_frequencies_simple, init_enc_symbol, alias table), FseTable::{renormalize_encode,encode_symbol,decode_symbol,renormalize_decode}",
            bounds: "args: concrete count table id (fse_table_counts), state window (0: 1..=2^16, 1: 2^16 states around x_max=2^36*freq, 2: top 2^16 states below 2^48, 3: 2^16 states around 2^16, 9: all of [1,2^48)); entropy_optimization=false; every byte",
            oracle: "a byte with a non-zero count owns >= 1 slot and is accepted; new state in [1,2^48); decode_symbol returns the byte; renormalize_decode restores the old state and consumes exactly the bytes emitted",
            cbmc: "--max-field-sensitivity-array-size 4100",
            body: {
                let e = fse_step($table, $window);
                zcover!(e.is_some(), "present symbol, step completed");
            }
        }
    };
}
macro_rules! fse_stepx_fam {
    ($name:ident, $tier:ident, $unwind:literal, $table:literal, $window:literal) => {
        zv_harness! {
            name: $name,
            prop: "C01",
            tier: $tier,
            unwind: $unwind,
            stubs: [alloc::fmt::format => crate::common::stubs::fmt_format,
                    std::io::_print => crate::c01_entropy::io_print_noop],
            targets: "FseTable::new (normalize_frequencies_simple, init_enc_symbol, alias table), FseTable::{renormalize_encode,encode_symbol,decode_symbol,renormalize_decode}",
            bounds: "args: concrete count table id (fse_table_counts), state window (0: 1..=2^16, 1: 2^16 states around x_max=2^36*freq, 2: top 2^16 states below 2^48, 3: 2^16 states around 2^16, 9: all of [1,2^48)); entropy_optimization=false; every byte",
            oracle: "a byte with a non-zero count owns >= 1 slot and is accepted; new state in [1,2^48); decode_symbol returns the byte; renormalize_decode restores the old state and consumes exactly the bytes emitted",
            cbmc: "--max-field-sensitivity-array-size 4100",
            body: {
                let e = fse_step($table, $window);
                zcover!(e.is_some(), "present symbol, step completed");
                zcover!(e == Some(4), "step with a 32-bit renormalisation word");
                zcover!(e == Some(0), "step without renormalisation");
            }
        }
    };
}
fse_step_fam!(c01_fse_step_t13_start, thorough, 4100, 0, 0);
fse_stepx_fam!(c01_fse_step_t13_xmax, probe, 4100, 0, 1);
fse_step_fam!(c01_fse_step_t13_top, probe, 4100, 0, 2);
fse_step_fam!(c01_fse_step_t13_l, probe, 4100, 0, 3);
fse_step_fam!(c01_fse_step_t13_all, probe, 4100, 0, 9);
fse_stepx_fam!(c01_fse_step_t112_xmax, probe, 4100, 1, 1);
fse_stepx_fam!(c01_fse_step_freq1_xmax, probe, 4100, 2, 1);
fse_step_fam!(c01_fse_step_zero_slot, probe, 4100, 3, 0);

// ----------------------------------------------------------------------------- Huffman order-0
use zipora::entropy::huffman::{HuffmanDecoder, HuffmanEncoder, HuffmanTree};

/// Training sets (concrete): id 0 = one symbol {7}; id 1 = two symbols {10, 20, 20};
/// id 2 = three symbols {1, 2, 2, 3, 3, 3, 3} (code lengths 2, 2, 1).
fn huff_train(id: u32) -> &'static [u8] {
    match id {
        0 => &[7],
        1 => &[10, 20, 20],
        _ => &[1, 2, 2, 3, 3, 3, 3],
    }
}

fn huff_o0<const N: usize>(train_id: u32) {
    let train = huff_train(train_id);
    let er = HuffmanEncoder::new(train);
    let enc = match &er {
        Ok(e) => e,
        Err(_) => panic!("HuffmanEncoder::new failed"),
    };
    let tr = HuffmanTree::from_data(train);
    let tree = match tr {
        Ok(t) => t,
        Err(_) => panic!("HuffmanTree::from_data failed"),
    };
    let dec = HuffmanDecoder::new(tree);
    let data: [u8; N] = vany();
    let mut all_present = true;
    let mut i = 0;
    while i < N {
        let mut found = false;
        let mut k = 0;
        while k < train.len() {
            if train[k] == data[i] {
                found = true;
            }
            k += 1;
        }
        if !found {
            all_present = false;
        }
        i += 1;
    }
    let e = enc.encode(&data);
    match &e {
        Ok(bytes) => {
            assert!(all_present, "encode accepted a symbol that is not in the tree");
            let d = dec.decode(bytes, N);
            match &d {
                Ok(out) => {
                    assert!(out.len() == N, "decoded length differs");
                    let mut j = 0;
                    while j < N {
                        assert!(out[j] == data[j], "decoded byte differs");
                        j += 1;
                    }
                }
                Err(_) => panic!("decode refused the encoder's output"),
            }
            forget(d);
        }
        Err(_) => assert!(!all_present, "encode refused data made of trained symbols"),
    }
    zcover!(e.is_ok(), "message encoded");
    zcover!(e.is_err(), "message with an untrained symbol refused");
    forget(e);
    forget(er);
    forget(dec);
}

macro_rules! huff_fam {
    ($name:ident, $tier:ident, $unwind:literal, $n:literal, $train:literal) => {
        zv_harness! {
            name: $name,
            prop: "C01",
            tier: $tier,
            unwind: $unwind,
            stubs: [alloc::fmt::format => crate::common::stubs::fmt_format,
                    std::hash::RandomState::new => crate::c01_entropy::random_state_fixed],
            targets: "HuffmanEncoder::{new,encode}, HuffmanTree::{from_data,from_frequencies,generate_codes}, HuffmanDecoder::{new,decode}",
            bounds: "args: N symbolic payload bytes, concrete training set id (see huff_train); std HashMap with fixed SipHash keys",
            oracle: "encode Ok iff every payload byte occurs in the training set; then decode(encoded, N) == payload",
            cbmc: "--max-field-sensitivity-array-size 300",
            body: { huff_o0::<$n>($train) }
        }
    };
}
huff_fam!(c01_huff_o0_n1_two, probe, 258, 1, 1);
huff_fam!(c01_huff_o0_n2_three, probe, 258, 2, 2);
huff_fam!(c01_huff_o0_n2_single, probe, 258, 2, 0);

//! C13 — serialised values decode to themselves and consume exactly their own bytes.
use crate::common::*;
use zipora::io::var_int::VarInt;

zv_harness! {
    name: c13_varint_u64,
    prop: "C13",
    tier: quick,
    unwind: 12,
    stubs: [alloc::fmt::format => crate::common::stubs::fmt_format],
    targets: "VarInt::write_to_vec, VarInt::decode, VarInt::encoded_len",
    bounds: "every u64 value; LEB128 has at most 10 groups => unwind 12",
    oracle: "decode(encode(v)) == (v, bytes written); encoded_len(v) == bytes written; 1..=10 bytes",
    body: {
        let v: u64 = vany();
        let mut buf: Vec<u8> = Vec::with_capacity(16);
        let w = VarInt::write_to_vec(&mut buf, v);
        let n = match &w { Ok(n) => *n, Err(_) => { forget(w); panic!("encode failed"); } };
        forget(w);
        assert!(n == buf.len() && n >= 1 && n <= 10);
        assert!(VarInt::encoded_len(v) == n);
        let r = VarInt::decode(&buf);
        match &r {
            Ok((d, c)) => { assert!(*d == v); assert!(*c == n); }
            Err(_) => panic!("decode refused a valid encoding"),
        }
        forget(r);
        zcover!(n == 10, "ten-byte encoding reached");
        zcover!(n == 1, "one-byte encoding reached");
        forget(buf);
    }
}

// ---------------------------------------------------------------------------------------------
// helpers (local to this module)
use zipora::io::var_int::SignedVarInt;
use zipora::io::var_int_variants::{VarIntEncoder, VarIntStrategy};
use zipora::io::{DataInput, DataOutput, SliceDataInput, VecDataOutput};

/// Unwrap a `Result<_, ZiporaError>` without ever running the drop glue of the error.
fn must<T>(r: zipora::error::Result<T>, msg: &'static str) -> T {
    match r {
        Ok(v) => v,
        Err(e) => {
            forget(e);
            panic!("{}", msg)
        }
    }
}

zv_harness! {
    name: c13_varint_signed,
    prop: "C13",
    tier: quick,
    unwind: 12,
    stubs: [alloc::fmt::format => crate::common::stubs::fmt_format],
    targets: "SignedVarInt for VarInt: encode_signed, decode_signed (zigzag + LEB128)",
    bounds: "every i64 value; one symbolic trailing byte after the encoding; <= 10 LEB128 groups => unwind 12",
    oracle: "decode_signed(encode_signed(v) ++ [any byte]) == (v, len(encode_signed(v)))",
    body: {
        let v: i64 = vany();
        let mut buf = <VarInt as SignedVarInt>::encode_signed(v);
        let n = buf.len();
        assert!(n >= 1 && n <= 10);
        buf.push(vany::<u8>());
        let (d, c) = must(<VarInt as SignedVarInt>::decode_signed(&buf), "decode_signed refused a valid encoding");
        assert!(d == v, "signed varint does not round-trip");
        assert!(c == n, "signed varint consumed != produced");
        zcover!(v == i64::MIN, "i64::MIN reached");
        zcover!(n == 10 && v > 0, "ten-byte positive");
        zcover!(n == 1 && v < 0, "one-byte negative");
        forget(buf);
    }
}

/// Value class "LEB128 encoding has exactly K bytes".
const fn leb_lo(k: u32) -> u64 {
    if k <= 1 { 0 } else { 1u64 << (7 * (k - 1)) }
}
const fn leb_hi(k: u32) -> u64 {
    if k >= 10 { u64::MAX } else { (1u64 << (7 * k)) - 1 }
}

/// Value class "needs exactly W little-endian bytes" (W = 1 includes 0).
const fn byte_lo(w: u32) -> u64 {
    if w <= 1 { 0 } else { 1u64 << (8 * (w - 1)) }
}
const fn byte_hi(w: u32) -> u64 {
    if w >= 8 { u64::MAX } else { (1u64 << (8 * w)) - 1 }
}
/// Signed values whose zigzag-LEB128 and signed-LEB128 forms have *at most* K bytes (contiguous range).
const fn s_lo(k: u32) -> i64 {
    if k >= 10 { i64::MIN } else { -(1i64 << (7 * k - 1)) }
}
const fn s_hi(k: u32) -> i64 {
    if k >= 10 { i64::MAX } else { (1i64 << (7 * k - 1)) - 1 }
}
const fn ul(k: u32) -> (u64, u64) {
    (leb_lo(k), leb_hi(k))
}
const fn ub(w: u32) -> (u64, u64) {
    (byte_lo(w), byte_hi(w))
}
const fn sl(k: u32) -> (i64, i64) {
    (s_lo(k), s_hi(k))
}

fn varint_concat2<const KA: usize>() {
    let a: u64 = vany();
    let b: u64 = vany();
    assume(a >= leb_lo(KA as u32) && a <= leb_hi(KA as u32));
    let ea = VarInt::encode(a);
    let eb = VarInt::encode(b);
    assert!(ea.len() == KA, "first value of the class does not take KA bytes");
    let nb = eb.len();
    assert!(nb >= 1 && nb <= 10);
    // concatenation ea ++ eb ++ garbage, built at concrete positions
    let mut arr = [0u8; 21];
    let mut i = 0;
    while i < KA {
        arr[i] = ea[i];
        i += 1;
    }
    let mut j = 0;
    while j < 11 {
        arr[KA + j] = if j < nb { eb[j] } else { vany::<u8>() };
        j += 1;
    }
    let (da, ca) = must(VarInt::decode(&arr[..KA + 11]), "decode refused first value");
    assert!(da == a && ca == KA, "first of two concatenated varints wrong");
    // ca == KA was just asserted, so slicing at the constant is slicing at the reported offset
    let (db, cb) = must(VarInt::decode(&arr[KA..KA + 11]), "decode refused second value");
    assert!(db == b && cb == nb, "second of two concatenated varints wrong");
    zcover!(nb == 10, "second value ten bytes");
    zcover!(nb == 1, "second value one byte");
    forget(ea);
    forget(eb);
}

macro_rules! c13_varint_concat2 {
    ($name:ident, $tier:ident, $unwind:literal, $ka:literal) => {
        zv_harness! {
            name: $name,
            prop: "C13",
            tier: $tier,
            unwind: $unwind,
            stubs: [alloc::fmt::format => crate::common::stubs::fmt_format],
            targets: "VarInt::encode (write_to_vec) of two values, concatenated; VarInt::decode at offset 0 and at the reported offset",
            bounds: "first value: every u64 whose LEB128 form has exactly KA bytes (instance); second value: every u64; followed by symbolic garbage bytes",
            oracle: "buf = enc(a) ++ enc(b) ++ garbage: decode(buf) == (a, KA = len enc(a)); decode(buf[KA..]) == (b, len enc(b))",
            body: { varint_concat2::<$ka>() }
        }
    };
}
c13_varint_concat2!(c13_varint_concat2_k1, quick, 12, 1);
c13_varint_concat2!(c13_varint_concat2_k10, quick, 12, 10);

/// Single-value round trip through `VarIntEncoder` (unsigned). A symbolic trailing byte is
/// appended so that "bytes consumed" is checked against garbage following the value.
fn vie_single_u64(s: VarIntStrategy, lo: u64, hi: u64) {
    let enc = VarIntEncoder::new(s);
    let v: u64 = vany();
    assume(v >= lo && v <= hi);
    let mut bytes = must(enc.encode_u64(v), "strategy refused a u64 it documents as supported");
    let n = bytes.len();
    bytes.push(vany::<u8>());
    let (d, c) = must(enc.decode_u64(&bytes), "decode_u64 refused a valid encoding");
    assert!(d == v, "u64 does not round-trip");
    assert!(c == n, "bytes consumed != bytes produced");
    zcover!(v == hi, "upper end of the value class");
    zcover!(v == lo, "lower end of the value class");
    forget(bytes);
}

fn vie_single_i64(s: VarIntStrategy, lo: i64, hi: i64) {
    let enc = VarIntEncoder::new(s);
    let v: i64 = vany();
    assume(v >= lo && v <= hi);
    let mut bytes = must(enc.encode_i64(v), "strategy refused an i64 it documents as supported");
    let n = bytes.len();
    bytes.push(vany::<u8>());
    let (d, c) = must(enc.decode_i64(&bytes), "decode_i64 refused a valid encoding");
    assert!(d == v, "i64 does not round-trip");
    assert!(c == n, "bytes consumed != bytes produced");
    zcover!(v == hi, "upper end of the value class");
    zcover!(v == lo, "lower end of the value class");
    forget(bytes);
}

macro_rules! c13_vie_u64 {
    ($name:ident, $tier:ident, $unwind:literal, $strat:ident, $lo:expr, $hi:expr) => {
        zv_harness! {
            name: $name,
            prop: "C13",
            tier: $tier,
            unwind: $unwind,
            stubs: [alloc::fmt::format => crate::common::stubs::fmt_format],
            targets: "VarIntEncoder::encode_u64 / decode_u64 for the strategy named by the instance",
            bounds: "every u64 in the inclusive value class given by the instance, followed by one symbolic garbage byte",
            oracle: "decode_u64(encode_u64(v) ++ [any]) == (v, len(encode_u64(v)))",
            body: { vie_single_u64(VarIntStrategy::$strat, $lo, $hi) }
        }
    };
}
macro_rules! c13_vie_i64 {
    ($name:ident, $tier:ident, $unwind:literal, $strat:ident, $lo:expr, $hi:expr) => {
        zv_harness! {
            name: $name,
            prop: "C13",
            tier: $tier,
            unwind: $unwind,
            stubs: [alloc::fmt::format => crate::common::stubs::fmt_format],
            targets: "VarIntEncoder::encode_i64 / decode_i64 for the strategy named by the instance",
            bounds: "every i64 in the inclusive value class given by the instance, followed by one symbolic garbage byte",
            oracle: "decode_i64(encode_i64(v) ++ [any]) == (v, len(encode_i64(v)))",
            body: { vie_single_i64(VarIntStrategy::$strat, $lo, $hi) }
        }
    };
}

c13_vie_u64!(c13_vie_leb128_u64, quick, 12, Leb128, 0, u64::MAX);
c13_vie_i64!(c13_vie_leb128_i64, quick, 12, Leb128, i64::MIN, i64::MAX);
c13_vie_i64!(c13_vie_zigzag_i64, quick, 12, Zigzag, i64::MIN, i64::MAX);
c13_vie_u64!(c13_vie_group_u64, quick, 12, GroupVarint, 0, u64::MAX);
c13_vie_i64!(c13_vie_group_i64, quick, 12, GroupVarint, i64::MIN, i64::MAX);
c13_vie_i64!(c13_vie_prefixfree_i64, quick, 12, PrefixFree, i64::MIN, i64::MAX);
c13_vie_u64!(c13_vie_compact_u64, thorough, 12, Compact, 0, u64::MAX);
c13_vie_i64!(c13_vie_compact_i64, quick, 12, Compact, i64::MIN, i64::MAX);
c13_vie_u64!(c13_vie_simd_u64, thorough, 12, Simd, 0, u64::MAX);
c13_vie_i64!(c13_vie_simd_i64, quick, 12, Simd, i64::MIN, i64::MAX);
c13_vie_u64!(c13_vie_prefixfree_u64_w8, quick, 12, PrefixFree, 1u64 << 56, u64::MAX);
c13_vie_u64!(c13_vie_prefixfree_u64_all, thorough, 12, PrefixFree, 0, u64::MAX);

// ---------------------------------------------------------------------------------------------
// sequences of 0..2 values through every strategy. Each value is assumed into an inclusive value
// class given by the instance (lo, hi), so that data-dependent byte widths stay (nearly) fixed.
//
// Cost note (measured): feeding the encoder's Vec straight into the sequence decoder leaves the
// element count and the slice length symbolic for CBMC's symbolic execution (they are read back
// through a memcpy / merged at function returns), so `Vec::with_capacity(count)` and
// `for _ in 0..count` explode (> 9 GB / > 10 min even for the empty sequence). The harness
// therefore restricts itself to inputs whose encoding has the shape given by the instance
// (total length L, first byte == N; both are `assume`d, and the covers prove the restriction is
// not vacuous), re-materialises the encoding in a stack buffer whose first byte is the literal N,
// and decodes `&copy[..L]`, i.e. exactly the encoder's bytes.
const SEQ_BUF: usize = 24;

fn rematerialise<const N: usize, const L: usize>(bytes: &Vec<u8>) -> [u8; SEQ_BUF] {
    assume(bytes.len() == L);
    assume(bytes[0] == N as u8);
    let mut copy = [0u8; SEQ_BUF];
    copy[0] = N as u8;
    // unrolled by hand: a loop here would force the harness-wide unwind bound up to 25
    copy[1] = if 1 < L { bytes[1] } else { 0 };
    copy[2] = if 2 < L { bytes[2] } else { 0 };
    copy[3] = if 3 < L { bytes[3] } else { 0 };
    copy[4] = if 4 < L { bytes[4] } else { 0 };
    copy[5] = if 5 < L { bytes[5] } else { 0 };
    copy[6] = if 6 < L { bytes[6] } else { 0 };
    copy[7] = if 7 < L { bytes[7] } else { 0 };
    copy[8] = if 8 < L { bytes[8] } else { 0 };
    copy[9] = if 9 < L { bytes[9] } else { 0 };
    copy[10] = if 10 < L { bytes[10] } else { 0 };
    copy[11] = if 11 < L { bytes[11] } else { 0 };
    copy[12] = if 12 < L { bytes[12] } else { 0 };
    copy[13] = if 13 < L { bytes[13] } else { 0 };
    copy[14] = if 14 < L { bytes[14] } else { 0 };
    copy[15] = if 15 < L { bytes[15] } else { 0 };
    copy[16] = if 16 < L { bytes[16] } else { 0 };
    copy[17] = if 17 < L { bytes[17] } else { 0 };
    copy[18] = if 18 < L { bytes[18] } else { 0 };
    copy[19] = if 19 < L { bytes[19] } else { 0 };
    copy[20] = if 20 < L { bytes[20] } else { 0 };
    copy[21] = if 21 < L { bytes[21] } else { 0 };
    copy[22] = if 22 < L { bytes[22] } else { 0 };
    copy[23] = if 23 < L { bytes[23] } else { 0 };
    copy
}

fn vie_seq_u64<const N: usize, const L: usize>(s: VarIntStrategy, cls: [(u64, u64); N]) {
    let enc = VarIntEncoder::new(s);
    // backing array of fixed non-zero size: a zero-sized `[u64; 0]` makes the slice pointer opaque to CBMC
    let mut vals = [0u64; 5];
    let mut i = 0;
    while i < N {
        vals[i] = vany();
        assume(vals[i] >= cls[i].0 && vals[i] <= cls[i].1);
        i += 1;
    }
    let bytes = must(enc.encode_u64_sequence(&vals[..N]), "strategy refused a u64 sequence it documents as supported");
    let copy = rematerialise::<N, L>(&bytes);
    let out = must(enc.decode_u64_sequence(&copy[..L]), "decode_u64_sequence refused a valid encoding");
    assert!(out.len() == N, "decoded sequence has a different length");
    let mut i = 0;
    while i < N {
        assert!(out[i] == vals[i], "u64 sequence element does not round-trip");
        i += 1;
    }
    // (no cover inside an `if N > 0` branch: a monomorphised dead branch would report it unsatisfiable)
    let last = if N > 0 { N - 1 } else { 0 };
    let (lo_first, hi_last) = if N > 0 { (cls[0].0, cls[last].1) } else { (0, 0) };
    zcover!(N == 0 || vals[last] == hi_last, "upper end of the last value class (or empty sequence) with the expected shape");
    zcover!(N == 0 || vals[0] == lo_first, "lower end of the first value class (or empty sequence) with the expected shape");
    forget(bytes);
    forget(out);
}

/// Value classes a strategy's wire format cannot represent (delta of 2^63 or more, group-varint
/// values of 2^32 or more): the encoder must either refuse them with Err or produce bytes that decode
/// back to the same values - never bytes that decode to something else.
fn vie_seq_u64_edge<const N: usize, const L: usize>(s: VarIntStrategy, cls: [(u64, u64); N]) {
    let enc = VarIntEncoder::new(s);
    let mut vals = [0u64; 5];
    let mut i = 0;
    while i < N {
        vals[i] = vany();
        assume(vals[i] >= cls[i].0 && vals[i] <= cls[i].1);
        i += 1;
    }
    let r = enc.encode_u64_sequence(&vals[..N]);
    let bytes = match r {
        Err(e) => {
            forget(e);
            zcover!(true, "encoder refused the unrepresentable values");
            return;
        }
        Ok(b) => b,
    };
    // same concrete re-shaping as the ordinary sequence harnesses (L = length of the encoding)
    let copy = rematerialise::<N, L>(&bytes);
    let out = must(enc.decode_u64_sequence(&copy[..L]), "decoder refused the encoder's own output");
    assert!(out.len() == N, "decoded sequence has a different length");
    let mut i = 0;
    while i < N {
        assert!(out[i] == vals[i], "u64 sequence element does not round-trip");
        i += 1;
    }
    zcover!(true, "opt: encoder accepted and the values round-trip");
    forget(bytes);
    forget(out);
}

macro_rules! c13_vie_seq_u64_edge {
    ($name:ident, $tier:ident, $unwind:literal, $strat:ident, $n:literal, $l:literal, [$($cls:expr),*]) => {
        zv_harness! {
            name: $name,
            prop: "C13",
            tier: $tier,
            unwind: $unwind,
            stubs: [alloc::fmt::format => crate::common::stubs::fmt_format],
            targets: "VarIntEncoder::{encode_u64_sequence, decode_u64_sequence} for the strategy of the instance, value classes outside the wire format's range",
            bounds: "instance = (strategy, n, value class per element): each element symbolic inside its class",
            oracle: "encode returns Err, or its bytes decode to exactly the input (never a silently different sequence)",
            body: { vie_seq_u64_edge::<$n, $l>(VarIntStrategy::$strat, [$($cls),*]) }
        }
    };
}

fn vie_seq_i64<const N: usize, const L: usize>(s: VarIntStrategy, cls: [(i64, i64); N]) {
    let enc = VarIntEncoder::new(s);
    let mut vals = [0i64; 5];
    let mut i = 0;
    while i < N {
        vals[i] = vany();
        assume(vals[i] >= cls[i].0 && vals[i] <= cls[i].1);
        i += 1;
    }
    let bytes = must(enc.encode_i64_sequence(&vals[..N]), "strategy refused an i64 sequence it documents as supported");
    let copy = rematerialise::<N, L>(&bytes);
    let out = must(enc.decode_i64_sequence(&copy[..L]), "decode_i64_sequence refused a valid encoding");
    assert!(out.len() == N, "decoded sequence has a different length");
    let mut i = 0;
    while i < N {
        assert!(out[i] == vals[i], "i64 sequence element does not round-trip");
        i += 1;
    }
    // (no cover inside an `if N > 0` branch: a monomorphised dead branch would report it unsatisfiable)
    let last = if N > 0 { N - 1 } else { 0 };
    let (lo_first, hi_last) = if N > 0 { (cls[0].0, cls[last].1) } else { (0, 0) };
    zcover!(N == 0 || vals[last] == hi_last, "upper end of the last value class (or empty sequence) with the expected shape");
    zcover!(N == 0 || vals[0] == lo_first, "lower end of the first value class (or empty sequence) with the expected shape");
    forget(bytes);
    forget(out);
}

macro_rules! c13_vie_seq_u64 {
    ($name:ident, $tier:ident, $unwind:literal, $strat:ident, $n:literal, $l:literal, [$($cls:expr),*]) => {
        zv_harness! {
            name: $name,
            prop: "C13",
            tier: $tier,
            unwind: $unwind,
            stubs: [alloc::fmt::format => crate::common::stubs::fmt_format],
            targets: "VarIntEncoder::encode_u64_sequence / decode_u64_sequence for the strategy named by the instance",
            bounds: "instance = strategy, N, L, classes: sequence of concrete length N; element i ranges over every u64 in the inclusive class (lo_i, hi_i); restricted (assume) to inputs whose encoding has exactly L bytes and starts with the byte N",
            oracle: "decode_u64_sequence(encode_u64_sequence(vals)) == vals (same length, element-wise equal)",
            body: { vie_seq_u64::<$n, $l>(VarIntStrategy::$strat, [$($cls),*]) }
        }
    };
}
/// i64 sequence whose values the strategy's wire format may be unable to represent: Err, or an exact round trip.
fn vie_seq_i64_edge<const N: usize, const L: usize>(s: VarIntStrategy, cls: [(i64, i64); N]) {
    let enc = VarIntEncoder::new(s);
    let mut vals = [0i64; 5];
    let mut i = 0;
    while i < N {
        vals[i] = vany();
        assume(vals[i] >= cls[i].0 && vals[i] <= cls[i].1);
        i += 1;
    }
    let r = enc.encode_i64_sequence(&vals[..N]);
    let bytes = match r {
        Err(e) => {
            forget(e);
            zcover!(true, "encoder refused the unrepresentable values");
            return;
        }
        Ok(b) => b,
    };
    let copy = rematerialise::<N, L>(&bytes);
    let out = must(enc.decode_i64_sequence(&copy[..L]), "decoder refused the encoder's own output");
    assert!(out.len() == N, "decoded sequence has a different length");
    let mut i = 0;
    while i < N {
        assert!(out[i] == vals[i], "i64 sequence element does not round-trip");
        i += 1;
    }
    zcover!(true, "opt: encoder accepted and the values round-trip");
    forget(bytes);
    forget(out);
}
macro_rules! c13_vie_seq_i64_edge {
    ($name:ident, $tier:ident, $unwind:literal, $strat:ident, $n:literal, $l:literal, [$($cls:expr),*]) => {
        zv_harness! {
            name: $name,
            prop: "C13",
            tier: $tier,
            unwind: $unwind,
            stubs: [alloc::fmt::format => crate::common::stubs::fmt_format],
            targets: "VarIntEncoder::{encode_i64_sequence, decode_i64_sequence} for the strategy of the instance, value classes outside the wire format's range",
            bounds: "instance = (strategy, n, value class per element): each element symbolic inside its class",
            oracle: "encode returns Err, or its bytes decode to exactly the input (never a silently different sequence)",
            body: { vie_seq_i64_edge::<$n, $l>(VarIntStrategy::$strat, [$($cls),*]) }
        }
    };
}

macro_rules! c13_vie_seq_i64 {
    ($name:ident, $tier:ident, $unwind:literal, $strat:ident, $n:literal, $l:literal, [$($cls:expr),*]) => {
        zv_harness! {
            name: $name,
            prop: "C13",
            tier: $tier,
            unwind: $unwind,
            stubs: [alloc::fmt::format => crate::common::stubs::fmt_format],
            targets: "VarIntEncoder::encode_i64_sequence / decode_i64_sequence for the strategy named by the instance",
            bounds: "instance = strategy, N, L, classes: sequence of concrete length N; element i ranges over every i64 in the inclusive class (lo_i, hi_i); restricted (assume) to inputs whose encoding has exactly L bytes and starts with the byte N",
            oracle: "decode_i64_sequence(encode_i64_sequence(vals)) == vals (same length, element-wise equal)",
            body: { vie_seq_i64::<$n, $l>(VarIntStrategy::$strat, [$($cls),*]) }
        }
    };
}

c13_vie_seq_u64!(c13_vie_leb128_seq_u64_n0, quick, 12, Leb128, 0, 1, []);
c13_vie_seq_u64!(c13_vie_leb128_seq_u64_n1_w1, thorough, 12, Leb128, 1, 2, [ul(1)]);
c13_vie_seq_u64!(c13_vie_leb128_seq_u64_n1_w10, quick, 12, Leb128, 1, 11, [ul(10)]);
c13_vie_seq_u64!(c13_vie_leb128_seq_u64_n2_w1_w10, quick, 12, Leb128, 2, 12, [ul(1), ul(10)]);
c13_vie_seq_u64!(c13_vie_leb128_seq_u64_n2_w5_w3, thorough, 12, Leb128, 2, 9, [ul(5), ul(3)]);
c13_vie_seq_u64!(c13_vie_leb128_seq_u64_n2_w10_w10, thorough, 12, Leb128, 2, 21, [ul(10), ul(10)]);
c13_vie_seq_i64!(c13_vie_leb128_seq_i64_n0, thorough, 12, Leb128, 0, 1, []);
c13_vie_seq_i64!(c13_vie_leb128_seq_i64_n1_k10, quick, 12, Leb128, 1, 11, [sl(10)]);
c13_vie_seq_i64!(c13_vie_leb128_seq_i64_n2_k1_k10, thorough, 12, Leb128, 2, 12, [sl(1), sl(10)]);
c13_vie_seq_i64!(c13_vie_leb128_seq_i64_n2_k10_k2, thorough, 12, Leb128, 2, 13, [sl(10), sl(2)]);
c13_vie_seq_i64!(c13_vie_zigzag_seq_i64_n0, thorough, 12, Zigzag, 0, 1, []);
c13_vie_seq_i64!(c13_vie_zigzag_seq_i64_n1_k10, quick, 12, Zigzag, 1, 11, [sl(10)]);
c13_vie_seq_i64!(c13_vie_zigzag_seq_i64_n2_k1_k10, thorough, 12, Zigzag, 2, 12, [sl(1), sl(10)]);
c13_vie_seq_i64!(c13_vie_zigzag_seq_i64_n2_k10_k2, thorough, 12, Zigzag, 2, 13, [sl(10), sl(2)]);
c13_vie_seq_u64!(c13_vie_delta_seq_u64_n0, thorough, 12, Delta, 0, 1, []);
c13_vie_seq_u64!(c13_vie_delta_seq_u64_n1_w10, thorough, 12, Delta, 1, 11, [ul(10)]);
c13_vie_seq_u64!(c13_vie_delta_seq_u64_n2_w2_w2, quick, 12, Delta, 2, 5, [ul(2), ul(2)]);
c13_vie_seq_u64!(c13_vie_delta_seq_u64_n2_mid_down, thorough, 12, Delta, 2, 19, [(1u64 << 56, (1u64 << 62) - 1), ul(1)]);
c13_vie_seq_u64_edge!(c13_vie_delta_seq_u64_n2_up_big, quick, 12, Delta, 2, 12, [ul(1), (1u64 << 63, u64::MAX)]);
c13_vie_seq_u64_edge!(c13_vie_delta_seq_u64_n2_down_big, quick, 12, Delta, 2, 21, [(1u64 << 63, u64::MAX), ul(1)]);
c13_vie_seq_u64_edge!(c13_vie_delta_seq_u64_n2_any_l21, thorough, 12, Delta, 2, 21, [(0, u64::MAX), (0, u64::MAX)]);
c13_vie_seq_i64!(c13_vie_delta_seq_i64_n0, thorough, 12, Delta, 0, 1, []);
c13_vie_seq_i64!(c13_vie_delta_seq_i64_n1_k10, thorough, 12, Delta, 1, 11, [sl(10)]);
c13_vie_seq_i64!(c13_vie_delta_seq_i64_n2_k1_k1, quick, 12, Delta, 2, 4, [sl(1), sl(1)]);
c13_vie_seq_i64!(c13_vie_delta_seq_i64_n2_wide_ok, thorough, 12, Delta, 2, 20, [(-(1i64 << 62), -(1i64 << 61)), (1i64 << 61, (1i64 << 62) - 1)]);
c13_vie_seq_i64!(c13_vie_delta_seq_i64_n2_overflow, quick, 12, Delta, 2, 21, [(i64::MIN, i64::MIN + 100), (0, 127)]);
c13_vie_seq_u64!(c13_vie_group_seq_u64_n0, thorough, 12, GroupVarint, 0, 1, []);
c13_vie_seq_u64!(c13_vie_group_seq_u64_n1_w1, thorough, 12, GroupVarint, 1, 3, [ub(1)]);
c13_vie_seq_u64!(c13_vie_group_seq_u64_n1_w4, quick, 12, GroupVarint, 1, 6, [ub(4)]);
c13_vie_seq_u64_edge!(c13_vie_group_seq_u64_n1_w5, quick, 12, GroupVarint, 1, 7, [ub(5)]);
c13_vie_seq_u64_edge!(c13_vie_group_seq_u64_n1_w8, quick, 12, GroupVarint, 1, 10, [ub(8)]);
c13_vie_seq_u64!(c13_vie_group_seq_u64_n2_w4_w4, thorough, 12, GroupVarint, 2, 10, [ub(4), ub(4)]);
c13_vie_seq_u64_edge!(c13_vie_group_seq_u64_n2_w1_w8, thorough, 12, GroupVarint, 2, 11, [ub(1), ub(8)]);
c13_vie_seq_u64!(c13_vie_group_seq_u64_n4_w1_w2_w3_w4, thorough, 12, GroupVarint, 4, 12, [ub(1), ub(2), ub(3), ub(4)]);
c13_vie_seq_u64!(c13_vie_group_seq_u64_n5_w1, quick, 12, GroupVarint, 5, 8, [ub(1), ub(1), ub(1), ub(1), ub(1)]);
c13_vie_seq_i64!(c13_vie_group_seq_i64_n1_pos_w4, thorough, 12, GroupVarint, 1, 6, [(1i64 << 24, (1i64 << 32) - 1)]);
// GroupVarint stores `v as u64` in at most 4 bytes: every negative value is outside its range (refused since fix 8b37062)
c13_vie_seq_i64_edge!(c13_vie_group_seq_i64_n1_neg, thorough, 12, GroupVarint, 1, 10, [(i64::MIN, -1)]);
c13_vie_seq_u64!(c13_vie_prefixfree_seq_u64_n0, thorough, 12, PrefixFree, 0, 1, []);
c13_vie_seq_u64!(c13_vie_prefixfree_seq_u64_n1_w8, quick, 12, PrefixFree, 1, 10, [ub(8)]);
c13_vie_seq_u64!(c13_vie_prefixfree_seq_u64_n2_w1_w8, thorough, 12, PrefixFree, 2, 12, [ub(1), ub(8)]);
c13_vie_seq_u64!(c13_vie_prefixfree_seq_u64_n2_w8_w8, thorough, 12, PrefixFree, 2, 19, [ub(8), ub(8)]);
c13_vie_seq_i64!(c13_vie_prefixfree_seq_i64_n1_l10, thorough, 12, PrefixFree, 1, 10, [sl(10)]);
c13_vie_seq_i64!(c13_vie_prefixfree_seq_i64_n2_l12, thorough, 12, PrefixFree, 2, 12, [sl(1), sl(10)]);
c13_vie_seq_u64!(c13_vie_compact_seq_u64_n2_w1_w10, thorough, 12, Compact, 2, 12, [ul(1), ul(10)]);
c13_vie_seq_i64!(c13_vie_compact_seq_i64_n2_k1_k10, thorough, 12, Compact, 2, 12, [sl(1), sl(10)]);
c13_vie_seq_u64!(c13_vie_simd_seq_u64_n2_w1_w10, thorough, 12, Simd, 2, 12, [ul(1), ul(10)]);
c13_vie_seq_i64!(c13_vie_simd_seq_i64_n2_k1_k10, thorough, 12, Simd, 2, 12, [sl(1), sl(10)]);

// ---------------------------------------------------------------------------------------------
// data input / output primitives over in-memory buffers
zv_harness! {
    name: c13_dataio_fixed,
    prop: "C13",
    tier: quick,
    unwind: 12,
    stubs: [alloc::fmt::format => crate::common::stubs::fmt_format],
    targets: "VecDataOutput::write_u8/u16/u32/u64, SliceDataInput::read_u8/u16/u32/u64, position, has_remaining, bytes_written",
    bounds: "every (u8, u16, u32, u64) quadruple written back to back, then read back in order",
    oracle: "values read == values written; 15 bytes produced; reader position after each read == bytes produced so far; little-endian layout of the u32; reading past the end is an Err",
    body: {
        let a: u8 = vany();
        let b: u16 = vany();
        let c: u32 = vany();
        let d: u64 = vany();
        let mut out = VecDataOutput::with_capacity(32);
        must(out.write_u8(a), "write_u8");
        must(out.write_u16(b), "write_u16");
        must(out.write_u32(c), "write_u32");
        must(out.write_u64(d), "write_u64");
        assert!(out.len() == 15);
        assert!(out.bytes_written() == Some(15));
        let bytes = out.into_vec();
        assert!(bytes[3] == (c & 0xff) as u8 && bytes[6] == (c >> 24) as u8, "u32 is not little-endian");
        let mut inp = SliceDataInput::new(&bytes);
        let ra = must(inp.read_u8(), "read_u8");
        assert!(ra == a && inp.pos() == 1);
        let rb = must(inp.read_u16(), "read_u16");
        assert!(rb == b && inp.pos() == 3);
        let rc = must(inp.read_u32(), "read_u32");
        assert!(rc == c && inp.pos() == 7);
        let rd = must(inp.read_u64(), "read_u64");
        assert!(rd == d && inp.pos() == 15);
        assert!(inp.has_remaining() == Some(false) && inp.remaining() == 0);
        let e = inp.read_u8();
        assert!(e.is_err(), "read past the end must be an error");
        forget(e);
        zcover!(d == u64::MAX && a == 0, "extreme values");
        forget(bytes);
    }
}

zv_harness! {
    name: c13_dataio_varint,
    prop: "C13",
    tier: quick,
    unwind: 12,
    stubs: [alloc::fmt::format => crate::common::stubs::fmt_format],
    targets: "VecDataOutput::write_var_int (VarInt::write_to over io::Write), write_u8; SliceDataInput::read_var_int (VarInt::read_from), read_u8, pos",
    bounds: "every u64 written as var int followed by one symbolic byte",
    oracle: "read_var_int == v; reader position == VarInt::encoded_len(v) == bytes produced by write_var_int; the following byte is read back unchanged",
    body: {
        let v: u64 = vany();
        let t: u8 = vany();
        let mut out = VecDataOutput::with_capacity(16);
        must(out.write_var_int(v), "write_var_int");
        let n = out.len();
        assert!(n == VarInt::encoded_len(v));
        must(out.write_u8(t), "write_u8");
        let bytes = out.into_vec();
        let mut inp = SliceDataInput::new(&bytes);
        let rv = must(inp.read_var_int(), "read_var_int refused a valid encoding");
        assert!(rv == v, "var int does not round-trip through DataOutput/DataInput");
        assert!(inp.pos() == n, "read_var_int consumed != write_var_int produced");
        let rt = must(inp.read_u8(), "read_u8");
        assert!(rt == t);
        zcover!(n == 10, "ten-byte var int");
        zcover!(n == 1, "one-byte var int");
        forget(bytes);
    }
}

fn dataio_lenprefixed<const K: usize>() {
    let payload: [u8; K] = vany();
    let t: u8 = vany();
    let mut out = VecDataOutput::with_capacity(16);
    must(out.write_length_prefixed_bytes(&payload), "write_length_prefixed_bytes");
    assert!(out.len() == K + 1, "length prefix of a short payload is one byte");
    must(out.write_u8(t), "write_u8");
    let bytes = out.into_vec();
    let mut inp = SliceDataInput::new(&bytes);
    let got = must(inp.read_length_prefixed_bytes(), "read_length_prefixed_bytes refused a valid encoding");
    assert!(got.len() == K, "payload length changed");
    let mut i = 0;
    while i < K {
        assert!(got[i] == payload[i], "payload byte changed");
        i += 1;
    }
    assert!(inp.pos() == K + 1, "consumed != produced");
    let rt = must(inp.read_u8(), "read_u8");
    assert!(rt == t);
    zcover!(rt == 0xff, "trailing byte read back");
    forget(got);
    forget(bytes);
}

fn dataio_lenprefixed_str<const K: usize>() {
    let raw: [u8; K] = vany();
    let mut i = 0;
    while i < K {
        assume(raw[i] < 0x80);
        i += 1;
    }
    let s = unsafe { core::str::from_utf8_unchecked(&raw) };
    let mut out = VecDataOutput::with_capacity(16);
    must(out.write_length_prefixed_string(s), "write_length_prefixed_string");
    let n = out.len();
    let bytes = out.into_vec();
    let mut inp = SliceDataInput::new(&bytes);
    let got = must(inp.read_length_prefixed_string(), "read_length_prefixed_string refused a valid encoding");
    let gb = got.as_bytes();
    assert!(gb.len() == K, "string length changed");
    let mut i = 0;
    while i < K {
        assert!(gb[i] == raw[i], "string byte changed");
        i += 1;
    }
    assert!(inp.pos() == n && n == K + 1, "consumed != produced");
    zcover!(K == 0 || raw[0] == b'z', "string content free");
    forget(got);
    forget(bytes);
}

macro_rules! c13_dataio_bytes {
    ($name:ident, $tier:ident, $unwind:literal, $k:literal) => {
        zv_harness! {
            name: $name,
            prop: "C13",
            tier: $tier,
            unwind: $unwind,
            stubs: [alloc::fmt::format => crate::common::stubs::fmt_format],
            targets: "DataOutput::write_length_prefixed_bytes (VecDataOutput), DataInput::read_length_prefixed_bytes / read_vec / read_bytes (SliceDataInput)",
            bounds: "every byte array of the concrete length K given by the instance, followed by one symbolic byte",
            oracle: "bytes read back == bytes written; reader position == bytes produced (K + 1); the following byte is read back unchanged",
            body: { dataio_lenprefixed::<$k>() }
        }
    };
}
macro_rules! c13_dataio_str {
    ($name:ident, $tier:ident, $unwind:literal, $k:literal) => {
        zv_harness! {
            name: $name,
            prop: "C13",
            tier: $tier,
            unwind: $unwind,
            stubs: [alloc::fmt::format => crate::common::stubs::fmt_format],
            targets: "DataOutput::write_length_prefixed_string (VecDataOutput), DataInput::read_length_prefixed_string (SliceDataInput)",
            bounds: "every ASCII string (bytes < 0x80) of the concrete length K given by the instance",
            oracle: "string read back == string written; reader position == bytes produced (K + 1)",
            body: { dataio_lenprefixed_str::<$k>() }
        }
    };
}
c13_dataio_bytes!(c13_dataio_bytes_k0, quick, 12, 0);
c13_dataio_bytes!(c13_dataio_bytes_k3, quick, 12, 3);
c13_dataio_str!(c13_dataio_str_k0, probe, 12, 0);
c13_dataio_str!(c13_dataio_str_k3, quick, 12, 3);

// ---------------------------------------------------------------------------------------------
// endian conversion
use zipora::io::endian::{EndianConvert, EndianIO, Endianness};

fn sym_endianness() -> Endianness {
    let k: u8 = vany();
    assume(k < 3);
    match k {
        0 => Endianness::Little,
        1 => Endianness::Big,
        _ => Endianness::Native,
    }
}

zv_harness! {
    name: c13_endian_u16_u32_u64,
    prop: "C13",
    tier: quick,
    unwind: 12,
    stubs: [alloc::fmt::format => crate::common::stubs::fmt_format],
    targets: "EndianConvert::{to_endian, from_endian, to_le, to_be, from_le, from_be} for u16/u32/u64/i64; EndianIO::{write_to_bytes, read_from_bytes, convert_slice_to_endian, convert_slice_from_endian}",
    bounds: "every u16, u32, u64, i64 value; every Endianness (Little, Big, Native; symbolic choice); x86-64 (little-endian) host",
    oracle: "from_endian(to_endian(v)) == v; to_be is a byte swap (involution) and to_le the identity on this host; bytes written by write_to_bytes are v.to_le_bytes()/to_be_bytes(); read_from_bytes(write_to_bytes(v)) == v; too-short buffers are an Err; slice conversion round-trips",
    body: {
        let e = sym_endianness();
        let a: u16 = vany();
        let b: u32 = vany();
        let c: u64 = vany();
        let d: i64 = vany();
        assert!(a.to_endian(e).from_endian(e) == a);
        assert!(b.to_endian(e).from_endian(e) == b);
        assert!(c.to_endian(e).from_endian(e) == c);
        assert!(d.to_endian(e).from_endian(e) == d);
        assert!(EndianConvert::to_be(EndianConvert::to_be(c)) == c && EndianConvert::to_le(c) == c);
        assert!(EndianConvert::from_be(b) == b.swap_bytes() && EndianConvert::from_le(a) == a);
        // u32 through a byte buffer
        let io32 = EndianIO::<u32>::new(e);
        let mut buf = [0u8; 4];
        must(io32.write_to_bytes(b, &mut buf), "write_to_bytes refused a 4-byte buffer");
        let want = match e {
            Endianness::Big => b.to_be_bytes(),
            _ => b.to_le_bytes(),
        };
        assert!(buf[0] == want[0] && buf[1] == want[1] && buf[2] == want[2] && buf[3] == want[3], "byte order of write_to_bytes");
        let rb = must(io32.read_from_bytes(&buf), "read_from_bytes refused 4 bytes");
        assert!(rb == b);
        let short = io32.read_from_bytes(&buf[..3]);
        assert!(short.is_err(), "3 bytes cannot hold a u32");
        forget(short);
        // u64 through a byte buffer with trailing bytes
        let io64 = EndianIO::<u64>::new(e);
        let mut buf9 = [0u8; 9];
        buf9[8] = vany();
        must(io64.write_to_bytes(c, &mut buf9), "write_to_bytes refused a 9-byte buffer");
        let rc = must(io64.read_from_bytes(&buf9), "read_from_bytes refused 9 bytes");
        assert!(rc == c);
        // slices
        let io16 = EndianIO::<u16>::new(e);
        let mut arr = [a, a.wrapping_add(1)];
        io16.convert_slice_to_endian(&mut arr);
        assert!(arr[0] == a.to_endian(e));
        io16.convert_slice_from_endian(&mut arr);
        assert!(arr[0] == a && arr[1] == a.wrapping_add(1));
        zcover!(matches!(e, Endianness::Big) && b == 0x0102_0304, "big endian with a non-palindromic value");
        zcover!(matches!(e, Endianness::Native), "native");
    }
}

// ---------------------------------------------------------------------------------------------
// tuples / Option / Vec<u8> (ComplexSerialize, SerializableType)
use zipora::io::complex_types::ComplexSerialize;
use zipora::io::smart_ptr::SerializableType;

zv_harness! {
    name: c13_complex_tuple_option,
    prop: "C13",
    tier: quick,
    unwind: 12,
    stubs: [alloc::fmt::format => crate::common::stubs::fmt_format],
    targets: "ComplexSerialize::{serialize_data, deserialize_with_version} for (u8, u32) and Option<u16>, written back to back into one VecDataOutput",
    bounds: "every (u8, u32) tuple followed by every Option<u16> (None / Some(any)) followed by one symbolic byte",
    oracle: "values read back in order are equal; reader position after each value == bytes produced for it (5, then 1 or 3); an Option marker other than 0/1 is never produced",
    body: {
        let t: (u8, u32) = (vany(), vany());
        let some: bool = vany();
        let o: Option<u16> = if some { Some(vany()) } else { None };
        let g: u8 = vany();
        let mut out = VecDataOutput::with_capacity(16);
        must(t.serialize_data(&mut out), "tuple serialize_data");
        let n1 = out.len();
        assert!(n1 == 5);
        must(o.serialize_data(&mut out), "option serialize_data");
        let n2 = out.len();
        assert!(n2 == n1 + if some { 3 } else { 1 });
        must(out.write_u8(g), "write_u8");
        let bytes = out.into_vec();
        let mut inp = SliceDataInput::new(&bytes);
        let rt = must(<(u8, u32) as ComplexSerialize>::deserialize_with_version(&mut inp, 1), "tuple deserialize");
        assert!(rt.0 == t.0 && rt.1 == t.1, "tuple does not round-trip");
        assert!(inp.pos() == n1, "tuple consumed != produced");
        let ro = must(<Option<u16> as ComplexSerialize>::deserialize_with_version(&mut inp, 1), "option deserialize");
        assert!(ro == o, "Option does not round-trip");
        assert!(inp.pos() == n2, "Option consumed != produced");
        let rg = must(inp.read_u8(), "read_u8");
        assert!(rg == g);
        zcover!(some && o == Some(0xffff), "Some(max)");
        zcover!(!some, "None");
        forget(bytes);
    }
}

fn complex_vec_u8<const K: usize>() {
    let raw: [u8; K] = vany();
    let mut v: Vec<u8> = Vec::with_capacity(4);
    let mut i = 0;
    while i < K {
        v.push(raw[i]);
        i += 1;
    }
    let g: u8 = vany();
    let mut out = VecDataOutput::with_capacity(16);
    must(<Vec<u8> as SerializableType>::serialize(&v, &mut out), "Vec<u8> serialize");
    let n = out.len();
    assert!(n == 4 + K, "u32 count + elements");
    must(out.write_u8(g), "write_u8");
    let bytes = out.into_vec();
    let mut inp = SliceDataInput::new(&bytes);
    let got = must(<Vec<u8> as SerializableType>::deserialize(&mut inp), "Vec<u8> deserialize refused a valid encoding");
    assert!(got.len() == K, "Vec length changed");
    let mut i = 0;
    while i < K {
        assert!(got[i] == raw[i], "Vec element changed");
        i += 1;
    }
    assert!(inp.pos() == n, "Vec consumed != produced");
    let rg = must(inp.read_u8(), "read_u8");
    assert!(rg == g);
    zcover!(rg == 7, "trailing byte read back");
    forget(got);
    forget(v);
    forget(bytes);
}

macro_rules! c13_complex_vec {
    ($name:ident, $tier:ident, $unwind:literal, $k:literal) => {
        zv_harness! {
            name: $name,
            prop: "C13",
            tier: $tier,
            unwind: $unwind,
            stubs: [alloc::fmt::format => crate::common::stubs::fmt_format],
            targets: "SerializableType for Vec<u8>: serialize (u32 count + elements) / deserialize, over VecDataOutput / SliceDataInput",
            bounds: "every Vec<u8> of the concrete length K given by the instance (K <= 2), followed by one symbolic byte",
            oracle: "Vec read back == Vec written; reader position == bytes produced (4 + K); the following byte is read back unchanged",
            body: { complex_vec_u8::<$k>() }
        }
    };
}
c13_complex_vec!(c13_complex_vec_k0, thorough, 12, 0);
c13_complex_vec!(c13_complex_vec_k2, quick, 12, 2);


// ---------------------------------------------------------------- ComplexTypeSerializer batches
use zipora::io::complex_types::{ComplexTypeConfig, ComplexTypeSerializer};

/// serialize_batch -> deserialize_batch for K (0..=2) symbolic u32 values, with and without metadata.
fn complex_batch<const K: usize>(with_metadata: bool) {
    let ser = ComplexTypeSerializer::new(if with_metadata { ComplexTypeConfig::safe() } else { ComplexTypeConfig::fast() });
    let raw: [u16; 2] = vany();
    let vals: [Option<u16>; 2] = [if raw[0] == 0 { None } else { Some(raw[0]) }, if raw[1] == 0 { None } else { Some(raw[1]) }];
    let bytes = must(ser.serialize_batch::<Option<u16>>(&vals[..K]), "serialize_batch refused");
    let empty = [0u8; 4];
    let out = if K == 0 {
        // the empty batch is exactly the count word; decoding is run on a constant copy of those bytes
        // (equal by the assertion), which keeps the reader's length fields concrete for CBMC
        assert!(bytes.len() == 4 && bytes[0] == 0 && bytes[1] == 0 && bytes[2] == 0 && bytes[3] == 0, "empty batch is not the count word alone");
        must(ser.deserialize_batch::<Option<u16>>(&empty[..]), "deserialize_batch refused the serializer's own output")
    } else {
        must(ser.deserialize_batch::<Option<u16>>(&bytes[..]), "deserialize_batch refused the serializer's own output")
    };
    assert!(out.len() == K, "batch length not preserved");
    let mut i = 0;
    while i < K {
        assert!(out[i] == vals[i], "batch element does not round-trip");
        i += 1;
    }
    zcover!(true, "round trip completed");
    forget(bytes);
    forget(out);
}
macro_rules! c13_complex_batch {
    ($name:ident, $tier:ident, $unwind:literal, $k:literal, $meta:literal) => {
        zv_harness! {
            name: $name,
            prop: "C13",
            tier: $tier,
            unwind: $unwind,
            stubs: [alloc::fmt::format => crate::common::stubs::fmt_format],
            targets: "io::complex_types::ComplexTypeSerializer::{serialize_batch, deserialize_batch} for Option<u16> elements",
            bounds: "batch of K symbolic Option<u16> values (instance arg, 0..=2), metadata on (safe config) or off (fast config)",
            oracle: "deserialize_batch(serialize_batch(v)) == v, including the empty batch",
            body: { complex_batch::<$k>($meta) }
        }
    };
}
zv_harness! {
    name: c13_complex_batch_empty_decode,
    prop: "C13",
    tier: quick,
    unwind: 4,
    stubs: [alloc::fmt::format => crate::common::stubs::fmt_format],
    targets: "io::complex_types::ComplexTypeSerializer::deserialize_batch for the encoding of the empty batch (the 4-byte count word 0, which is what serialize_batch(&[]) produces under every configuration: see c13_complex_batch_k0_*), safe / default / fast configurations",
    bounds: "the one input [0, 0, 0, 0]; three configurations",
    oracle: "decodes to the empty vector",
    body: {
        let empty = [0u8; 4];
        let safe = ComplexTypeSerializer::new(ComplexTypeConfig::safe());
        let a = must(safe.deserialize_batch::<Option<u16>>(&empty[..]), "safe: empty batch refused");
        assert!(a.len() == 0);
        let dflt = ComplexTypeSerializer::new(ComplexTypeConfig::default());
        let b = must(dflt.deserialize_batch::<(u8, u32)>(&empty[..]), "default: empty batch refused");
        assert!(b.len() == 0);
        let fast = ComplexTypeSerializer::new(ComplexTypeConfig::fast());
        let c = must(fast.deserialize_batch::<Option<u16>>(&empty[..]), "fast: empty batch refused");
        assert!(c.len() == 0);
        zcover!(true, "all three decoded");
        forget(a);
        forget(b);
        forget(c);
    }
}
c13_complex_batch!(c13_complex_batch_k0_meta, quick, 4, 0, true);
c13_complex_batch!(c13_complex_batch_k1_meta, probe, 24, 1, true);
c13_complex_batch!(c13_complex_batch_k0_fast, quick, 24, 0, false);
c13_complex_batch!(c13_complex_batch_k2_fast, probe, 24, 2, false);

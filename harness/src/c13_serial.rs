//! C13 — serialised values decode to themselves and consume exactly their own bytes.
use crate::common::*;
use zipora::io::var_int::VarInt;

zv_harness! {
    name: c13_varint_u64,
    prop: "C13",
    tier: quick,
    unwind: 12,
    stubs: [alloc::fmt::format => crate::common::stubs::fmt_format],
    targets: "VarInt::write_to_vec, VarInt::decode, VarInt::encoded_len",
    bounds: "every u64 value; LEB128 has at most 10 groups => unwind 12",
    oracle: "decode(encode(v)) == (v, bytes written); encoded_len(v) == bytes written; 1..=10 bytes",
    body: {
        let v: u64 = vany();
        let mut buf: Vec<u8> = Vec::with_capacity(16);
        let w = VarInt::write_to_vec(&mut buf, v);
        let n = match &w { Ok(n) => *n, Err(_) => { forget(w); panic!("encode failed"); } };
        forget(w);
        assert!(n == buf.len() && n >= 1 && n <= 10);
        assert!(VarInt::encoded_len(v) == n);
        let r = VarInt::decode(&buf);
        match &r {
            Ok((d, c)) => { assert!(*d == v); assert!(*c == n); }
            Err(_) => panic!("decode refused a valid encoding"),
        }
        forget(r);
        zcover!(n == 10, "ten-byte encoding reached");
        zcover!(n == 1, "one-byte encoding reached");
        forget(buf);
    }
}

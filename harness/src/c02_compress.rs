//! C02 — compressor layer / PA-Zip framing round-trips: every match encoding is parsed back with
//! the same field widths, and a sequence written by `encode_matches` is read back by
//! `decode_matches` as exactly that sequence.
use crate::common::*;
use zipora::compression::dict_zip::compression_types::{
    decode_match, decode_matches, encode_match, encode_matches, BitReader,
    BitWriter, Match,
};

// ----------------------------------------------------------------------------- symbolic matches
/// Symbolic `Match` of the variant selected by the concrete `kind` (0..=7, the wire type id).
/// Field *types* bound the values; the documented precondition `validate().is_ok()` is assumed
/// by the caller.
fn sym_match(kind: u8) -> Match {
    match kind {
        0 => Match::Literal { length: vany() },
        1 => Match::Global { dict_position: vany(), length: vany() },
        2 => Match::RLE { byte_value: vany(), length: vany() },
        3 => Match::NearShort { distance: vany(), length: vany() },
        4 => Match::Far1Short { distance: vany(), length: vany() },
        5 => Match::Far2Short { distance: vany(), length: vany() },
        6 => Match::Far2Long { distance: vany(), length: vany() },
        _ => Match::Far3Long { distance: vany(), length: vany() },
    }
}

fn assume_valid(m: &Match) {
    let v = m.validate();
    let ok = v.is_ok();
    forget(v);
    assume(ok);
}

/// Wire size in bits by the format definition in the doc comments of `encode_match` /
/// `encode_variable_length` (3 type bits + fixed operands; variable length = 8 / 17 / 32 bits).
fn spec_bits(m: &Match) -> usize {
    fn varlen(v: u32) -> usize {
        if v < 128 {
            8
        } else if v < 32768 {
            17
        } else {
            32
        }
    }
    3 + match m {
        Match::Literal { .. } => 5,
        Match::Global { .. } => 48,
        Match::RLE { .. } => 13,
        Match::NearShort { .. } => 5,
        Match::Far1Short { .. } => 13,
        Match::Far2Short { .. } => 21,
        Match::Far2Long { length, .. } => 16 + varlen((*length as u32).wrapping_sub(34)),
        Match::Far3Long { length, .. } => 24 + varlen(length.wrapping_sub(34)),
    }
}

/// Field-wise equality (avoids the derived `PartialEq` only to keep the formula small and the
/// failing field visible in the assertion message).
fn same(a: &Match, b: &Match) -> bool {
    match (a, b) {
        (Match::Literal { length: l1 }, Match::Literal { length: l2 }) => l1 == l2,
        (Match::Global { dict_position: p1, length: l1 }, Match::Global { dict_position: p2, length: l2 }) => {
            p1 == p2 && l1 == l2
        }
        (Match::RLE { byte_value: v1, length: l1 }, Match::RLE { byte_value: v2, length: l2 }) => v1 == v2 && l1 == l2,
        (Match::NearShort { distance: d1, length: l1 }, Match::NearShort { distance: d2, length: l2 }) => {
            d1 == d2 && l1 == l2
        }
        (Match::Far1Short { distance: d1, length: l1 }, Match::Far1Short { distance: d2, length: l2 }) => {
            d1 == d2 && l1 == l2
        }
        (Match::Far2Short { distance: d1, length: l1 }, Match::Far2Short { distance: d2, length: l2 }) => {
            d1 == d2 && l1 == l2
        }
        (Match::Far2Long { distance: d1, length: l1 }, Match::Far2Long { distance: d2, length: l2 }) => {
            d1 == d2 && l1 == l2
        }
        (Match::Far3Long { distance: d1, length: l1 }, Match::Far3Long { distance: d2, length: l2 }) => {
            d1 == d2 && l1 == l2
        }
        _ => false,
    }
}

// ----------------------------------------------------------------------------- single match
/// `encode_match` -> `finish` -> `decode_match` for one symbolic match of variant `kind`.
/// `region` restricts the length of Far2Long / Far3Long to one wire form of the variable-length
/// field (offset = length - 34): 0 = no restriction, 1 = 8-bit form (offset < 128), 2 = 17-bit
/// form (offset < 32768), 3 = 32-bit form with (offset - 32768) < 2^30, 4 = Far3Long only:
/// (offset - 32768) >= 2^30, which does not fit the 30-bit field.
fn match_rt(kind: u8, region: u8) -> Match {
    let m = sym_match(kind);
    assume_valid(&m);
    let len: u64 = match &m {
        Match::Far2Long { length, .. } => *length as u64,
        Match::Far3Long { length, .. } => *length as u64,
        _ => 34,
    };
    match region {
        1 => assume(len < 34 + 128),
        2 => assume(len >= 34 + 128 && len < 34 + 32768),
        3 => assume(len >= 34 + 32768 && len < 34 + 32768 + (1u64 << 30)),
        // the top of the representable range (validate() refuses anything above 34+32768+2^30-1)
        4 => assume(len >= 34 + 32768 + (1u64 << 30) - 4),
        // narrow bands around the two format switches of the variable-length field
        5 => assume(len >= 34 + 120 && len <= 34 + 136),
        6 => assume(len >= 34 + 32760 && len <= 34 + 32900),
        _ => {}
    }
    let mut w = BitWriter::new();
    let r = encode_match(&m, &mut w);
    let bits_written = match &r {
        Ok(n) => *n,
        Err(_) => panic!("encode_match refused a match that passes validate()"),
    };
    forget(r);
    assert!(bits_written == w.bits_written(), "returned bit count differs from the writer position");
    assert!(bits_written == spec_bits(&m), "bits written differ from the documented wire size");
    let buf = w.finish();
    assert!(buf.len() == (bits_written + 7) / 8, "finish() must pad to the next byte only");
    let mut rd = BitReader::new(&buf);
    let d = decode_match(&mut rd);
    match &d {
        Ok((m2, consumed)) => {
            assert!(same(&m, m2), "decode_match returned a different match");
            assert!(*consumed == bits_written, "bits consumed != bits written");
            assert!(rd.bit_position() == bits_written);
        }
        Err(_) => panic!("decode_match refused an encoder-produced stream"),
    }
    forget(d);
    forget(buf);
    m
}

macro_rules! match_rt_fam {
    ($name:ident, $tier:ident, $unwind:literal, $kind:literal, $region:literal) => {
        zv_harness! {
            name: $name,
            prop: "C02",
            tier: $tier,
            unwind: $unwind,
            stubs: [alloc::fmt::format => crate::common::stubs::fmt_format],
            targets: "Match::validate, encode_match, encode_variable_length, BitWriter::{write_bits,finish,bits_written}, BitReader::{read_bits,bit_position}, decode_match, decode_variable_length",
            bounds: "one Match of the given variant (args: wire type id 0..=7; length region 0=all, 1/2/3 = 8/17/32-bit form of the variable-length field, 4 = top of the Far3Long range, 5/6 = bands around the 127/128 and 32767/32768 format switches), every field value passing validate()",
            oracle: "encode Ok; bits written == documented wire size; finish pads to a byte; decode_match returns the same Match and consumes exactly the bits written",
            body: { let m = match_rt($kind, $region); zcover!(true, "round trip completed"); forget(m); }
        }
    };
}
// Cost note: every `?` on a `Result<_, ZiporaError>` (20-variant enum) costs ~500 symex steps, and
// decode_match explores all 8 type branches symbolically: ~0.9M steps, 150-300 s, 7-9 GB each.
match_rt_fam!(c02_match_rt_literal, quick, 5, 0, 0);
match_rt_fam!(c02_match_rt_global, quick, 5, 1, 0);
match_rt_fam!(c02_match_rt_rle, quick, 5, 2, 0);
match_rt_fam!(c02_match_rt_nearshort, quick, 5, 3, 0);
match_rt_fam!(c02_match_rt_far1short, quick, 5, 4, 0);
match_rt_fam!(c02_match_rt_far2short, quick, 5, 5, 0);
match_rt_fam!(c02_match_rt_far2long_switch1, quick, 5, 6, 5);
match_rt_fam!(c02_match_rt_far2long_switch2, quick, 5, 6, 6);
match_rt_fam!(c02_match_rt_far3long_switch2, quick, 5, 7, 6);
match_rt_fam!(c02_match_rt_far2long_v8, thorough, 5, 6, 1);
match_rt_fam!(c02_match_rt_far2long_v17, thorough, 5, 6, 2);
match_rt_fam!(c02_match_rt_far2long_v32, thorough, 5, 6, 3);
match_rt_fam!(c02_match_rt_far3long_v8, thorough, 5, 7, 1);
match_rt_fam!(c02_match_rt_far3long_v17, thorough, 5, 7, 2);
match_rt_fam!(c02_match_rt_far3long_v32, thorough, 5, 7, 3);
match_rt_fam!(c02_match_rt_far3long_huge, quick, 5, 7, 4);

// ----------------------------------------------------------------------------- bit I/O
/// Three (value, width) writes, then read back with the same widths. Values are symbolic; the
/// widths are symbolic (`sym_widths`) or the concrete triple given by the instance.
fn bitio3(sym_widths: bool, w0: u8, w1: u8, w2: u8) -> [u8; 3] {
    let v: [u32; 3] = vany();
    let wd: [u8; 3] = if sym_widths { vany() } else { [w0, w1, w2] };
    assume(wd[0] <= 32 && wd[1] <= 32 && wd[2] <= 32);
    let mut w = BitWriter::new();
    let mut total = 0usize;
    let mut i = 0;
    while i < 3 {
        let r = w.write_bits(v[i], wd[i]);
        assert!(r.is_ok(), "write_bits refused a width <= 32");
        forget(r);
        total += wd[i] as usize;
        assert!(w.bits_written() == total);
        i += 1;
    }
    let buf = w.finish();
    assert!(buf.len() == (total + 7) / 8);
    let mut rd = BitReader::new(&buf);
    let mut read = 0usize;
    i = 0;
    while i < 3 {
        let r = rd.read_bits(wd[i]);
        let expect = if wd[i] == 32 { v[i] } else { v[i] & ((1u32 << wd[i]) - 1) };
        match &r {
            Ok(x) => assert!(*x == expect, "read_bits returned different bits"),
            Err(_) => panic!("read_bits ran out of bits that were written"),
        }
        forget(r);
        read += wd[i] as usize;
        assert!(rd.bit_position() == read);
        i += 1;
    }
    // fewer than 8 pad bits remain, and exactly those
    let pad = buf.len() * 8 - total;
    assert!(pad < 8);
    assert!(rd.has_bits(pad as u8) && !rd.has_bits(pad as u8 + 1));
    zcover!(v[0] == 0xFFFF_FFFF && v[2] == 0xFFFF_FFFF, "values wider than their field are masked");
    forget(buf);
    wd
}

macro_rules! bitio_fam {
    ($name:ident, $tier:ident, $unwind:literal, $sym:literal, $w0:literal, $w1:literal, $w2:literal) => {
        zv_harness! {
            name: $name,
            prop: "C02",
            tier: $tier,
            unwind: $unwind,
            stubs: [alloc::fmt::format => crate::common::stubs::fmt_format],
            targets: "BitWriter::{new,write_bits,bits_written,finish}, BitReader::{new,read_bits,bit_position,has_bits}",
            bounds: "3 writes, every u32 value; args: false, then the concrete width triple",
            oracle: "bits_written is the running sum; finish pads to a byte; read_bits with the same widths returns the low `width` bits of each value; bit_position is the running sum; exactly the pad bits remain",
            body: { let _ = bitio3($sym, $w0, $w1, $w2); }
        }
    };
}
bitio_fam!(c02_bitio_w32_0_7, quick, 6, false, 32, 0, 7);
bitio_fam!(c02_bitio_w7_32_32, quick, 6, false, 7, 32, 32);
bitio_fam!(c02_bitio_w3_5_13, quick, 6, false, 3, 5, 13);
bitio_fam!(c02_bitio_w5_30_3, quick, 6, false, 5, 30, 3);
bitio_fam!(c02_bitio_w7_31_1, quick, 6, false, 7, 31, 1);
bitio_fam!(c02_bitio_w2_27_26, quick, 6, false, 2, 27, 26);
zv_harness! {
    name: c02_bitio_wsym,
    prop: "C02",
    tier: probe,
    unwind: 6,
    stubs: [alloc::fmt::format => crate::common::stubs::fmt_format],
    targets: "BitWriter::{new,write_bits,bits_written,finish}, BitReader::{new,read_bits,bit_position,has_bits}",
    bounds: "3 writes, every u32 value, every width 0..=32 (symbolic), <= 12 output bytes",
    oracle: "bits_written is the running sum; finish pads to a byte; read_bits with the same widths returns the low `width` bits of each value; bit_position is the running sum; exactly the pad bits remain",
    body: {
        let wd = bitio3(true, 0, 0, 0);
        zcover!(wd[0] == 32 && wd[1] == 0 && wd[2] == 7, "32-bit, empty and odd widths");
        zcover!(wd[0] == 7 && wd[1] == 32 && wd[2] == 32, "32-bit write at bit offset 7");
    }
}

// ----------------------------------------------------------------------------- sequences
// Cost note (measured): decode_matches explores all 8 type branches in every unrolled loop
// iteration and each `?` on Result<_, ZiporaError> costs ~500 symex steps; the cheapest instance
// (1 Far2Long in 8-bit form, unwind 3) needs ~590 s to get through symbolic execution and ~10 GB,
// seq1_global_len hit the 600 s cap in symex. All sequence instances are thorough tier.

/// Builders for the sequence instances (`mode`): 0 = every field symbolic; 1 = Global with concrete
/// dict_position and symbolic length; 2 = Far2Long with length < 162 (8-bit variable-length form:
/// every read needs <= 2 byte loads, so unwind 3 suffices and the decode loop is unrolled 3x only).
fn seq_match(kind: u8, mode: u8) -> Match {
    if mode == 1 && kind == 1 {
        Match::Global { dict_position: 0x0102_0304, length: vany() }
    } else if mode == 2 && kind == 6 {
        // Far2Long restricted to the 8-bit form of the variable-length field (27 wire bits)
        let length: u16 = vany();
        assume(length < 34 + 128);
        Match::Far2Long { distance: vany(), length }
    } else {
        sym_match(kind)
    }
}

/// `encode_matches(&[m1..mK])` then `decode_matches` must return exactly `[m1..mK]`.
fn matches_seq<const K: usize>(kinds: [u8; K], mode: u8) {
    let mut ms: Vec<Match> = Vec::with_capacity(K);
    let mut expect_bits = 0usize;
    let mut i = 0;
    while i < K {
        let m = seq_match(kinds[i], mode);
        assume_valid(&m);
        if let Match::Far3Long { length, .. } = &m {
            // the 30-bit truncation is the subject of c02_match_rt_far3long_huge, excluded here
            assume(*length < (1u32 << 30));
        }
        expect_bits += spec_bits(&m);
        ms.push(m);
        i += 1;
    }
    let e = encode_matches(&ms);
    let (buf, bits) = match &e {
        Ok((b, n)) => (b, *n),
        Err(_) => panic!("encode_matches refused valid matches"),
    };
    assert!(bits == expect_bits, "total bits differ from the documented wire size");
    assert!(buf.len() == (bits + 7) / 8);
    let d = decode_matches(buf);
    match &d {
        Ok((out, consumed)) => {
            assert!(out.len() == K, "decode_matches returned a different number of matches");
            let mut j = 0;
            while j < K {
                assert!(same(&out[j], &ms[j]), "decode_matches returned a different match");
                j += 1;
            }
            assert!(*consumed == bits, "total bits consumed != total bits written");
        }
        Err(_) => panic!("decode_matches refused the output of encode_matches"),
    }
    zcover!(true, "sequence round trip completed");
    forget(d);
    forget(e);
    forget(ms);
}

macro_rules! seq1_fam {
    ($name:ident, $tier:ident, $unwind:literal, $k0:literal, $mode:literal) => {
        zv_harness! {
            name: $name,
            prop: "C02",
            tier: $tier,
            unwind: $unwind,
            stubs: [alloc::fmt::format => crate::common::stubs::fmt_format],
            targets: "encode_matches, decode_matches (has_bits loop), encode_match, decode_match, BitWriter, BitReader",
            bounds: "sequence of 1 Match (args: wire type id; mode 0 = every field symbolic, 1 = Global with concrete dict_position 0x01020304 and symbolic length, 2 = Far2Long with length < 162), field values passing validate() (Far3Long length < 2^30)",
            oracle: "encode_matches Ok with the documented bit total; decode_matches Ok and returns exactly the input sequence and the same bit total (pad bits must not decode as a match or an error)",
            body: { matches_seq::<1>([$k0], $mode) }
        }
    };
}
macro_rules! seq2_fam {
    ($name:ident, $tier:ident, $unwind:literal, $k0:literal, $k1:literal) => {
        zv_harness! {
            name: $name,
            prop: "C02",
            tier: $tier,
            unwind: $unwind,
            stubs: [alloc::fmt::format => crate::common::stubs::fmt_format],
            targets: "encode_matches, decode_matches (has_bits loop), encode_match, decode_match, BitWriter, BitReader",
            bounds: "sequence of 2 Matches of the given variants (args: wire type ids), every field value passing validate() (Far3Long length < 2^30)",
            oracle: "encode_matches Ok with the documented bit total; decode_matches Ok and returns exactly the input sequence and the same bit total (pad bits must not decode as a match or an error)",
            body: { matches_seq::<2>([$k0, $k1], 0) }
        }
    };
}
seq1_fam!(c02_matches_seq1_far2long_v8, probe, 3, 6, 2);
seq1_fam!(c02_matches_seq1_global_len, probe, 5, 1, 1);
seq1_fam!(c02_matches_seq1_literal, probe, 5, 0, 0);
seq1_fam!(c02_matches_seq1_global, probe, 5, 1, 0);
seq1_fam!(c02_matches_seq1_far2long, probe, 5, 6, 0);
seq2_fam!(c02_matches_seq2_rle_far1short, probe, 5, 2, 4);
seq2_fam!(c02_matches_seq2_nearshort_far2short, probe, 5, 3, 5);
seq2_fam!(c02_matches_seq2_global_far2long, probe, 5, 1, 6);

// ----------------------------------------------------------------------------- compressor layer
use zipora::compression::{Compressor, HybridCompressor};

/// `std::hash::RandomState::new` reads OS randomness (unsupported FFI): fixed SipHash keys.
pub fn random_state_fixed() -> std::hash::RandomState {
    // SAFETY: RandomState is two u64 keys.
    unsafe { core::mem::transmute::<[u64; 2], std::hash::RandomState>([0x0706050403020100, 0x0f0e0d0c0b0a0908]) }
}

/// HybridCompressor trained on the single byte 'a' (cheapest training set: the rANS normaliser's
/// third pass is empty), payload = one symbolic byte. No component shrinks a 1-byte payload, so
/// this is the "nothing helped" branch of the selector.
fn hybrid_n1() {
    let train = [97u8];
    let hr = HybridCompressor::new(&train);
    let h = match &hr {
        Ok(h) => h,
        Err(_) => panic!("HybridCompressor::new failed"),
    };
    let b: u8 = vany();
    let data = [b];
    let c = h.compress(&data);
    let comp = match &c {
        Ok(v) => v,
        Err(_) => panic!("HybridCompressor::compress failed"),
    };
    let d = h.decompress(comp);
    match &d {
        Ok(out) => {
            assert!(out.len() == 1, "decompressed length differs");
            assert!(out[0] == b, "decompressed byte differs");
        }
        Err(_) => panic!("HybridCompressor::decompress refused the output of compress"),
    }
    zcover!(true, "round trip completed");
    forget(d);
    forget(c);
    forget(hr);
}

zv_harness! {
    name: c02_hybrid_n1,
    prop: "C02",
    tier: probe,
    unwind: 4100,
    stubs: [alloc::fmt::format => crate::common::stubs::fmt_format,
            std::hash::RandomState::new => crate::c02_compress::random_state_fixed],
    targets: "HybridCompressor::{new,compress,decompress} (algorithm id byte, raw fallback), HuffmanCompressor, RansCompressor, DictCompressor framing",
    bounds: "training data = [b'a'] (concrete); payload = 1 symbolic byte",
    oracle: "compress Ok; decompress(compress(x)) is Ok and equals x",
    body: { hybrid_n1() }
}

// ----------------------------------------------------------------------------- cheap sequence witness
/// Cheapest form found of the sequence round trip for one `Global` match (51 wire bits, 5 pad
/// bits); measured: still > 390 s of symbolic execution and > 5 GB under load, hence thorough.
/// The decoder's input is a stack array holding the documented wire image (asserted equal to the
/// bytes `encode_matches` produced), so that the concrete leading bytes (type bits, dict_position)
/// constant-fold in the reader: bytes that went through the writer's heap `Vec` never fold and make
/// `decode_matches` explore all 8 type branches per loop iteration (> 600 s, see
/// c02_matches_seq1_global_len). encode == image and decode(image) == input give the round trip.
fn seq1_global_image() {
    const DP: u32 = 0x0102_0304;
    let length: u16 = vany();
    let m = Match::Global { dict_position: DP, length };
    assume_valid(&m);
    let ms = [m];
    let e = encode_matches(&ms);
    let (buf, bits) = match &e {
        Ok((b, n)) => (b, *n),
        Err(_) => panic!("encode_matches refused a valid match"),
    };
    assert!(bits == 51, "Global is 3 + 32 + 16 bits");
    assert!(buf.len() == 7);
    // documented layout, least significant bit first: type (3) | dict_position (32) | length (16)
    let c: u64 = 1 | ((DP as u64) << 3);
    let l = length as u64;
    let img: [u8; 7] = [
        c as u8,
        (c >> 8) as u8,
        (c >> 16) as u8,
        (c >> 24) as u8,
        ((c >> 32) as u8) | ((l << 3) as u8),
        (l >> 5) as u8,
        (l >> 13) as u8,
    ];
    let mut i = 0;
    while i < 7 {
        assert!(buf[i] == img[i], "encoder output differs from the documented wire image");
        i += 1;
    }
    let d = decode_matches(&img);
    match &d {
        Ok((out, consumed)) => {
            assert!(out.len() == 1, "decode_matches returned a different number of matches");
            assert!(same(&out[0], &ms[0]), "decode_matches returned a different match");
            assert!(*consumed == 51, "total bits consumed != total bits written");
        }
        Err(_) => panic!("decode_matches refused the output of encode_matches"),
    }
    zcover!(true, "sequence round trip completed");
    forget(d);
    forget(e);
}

zv_harness! {
    name: c02_matches_seq1_global_image,
    prop: "C02",
    tier: probe,
    unwind: 8,
    stubs: [alloc::fmt::format => crate::common::stubs::fmt_format],
    targets: "encode_matches, decode_matches (has_bits loop over trailing pad bits), encode_match, decode_match, BitWriter, BitReader",
    bounds: "sequence of 1 Global match, dict_position = 0x01020304 (concrete), every length passing validate()",
    oracle: "encode_matches Ok, 51 bits, bytes == documented wire image; decode_matches(image) is Ok and returns exactly [m] and 51 bits (the 5 pad bits must not decode as a match or an error)",
    body: { seq1_global_image() }
}

/// Fully concrete witness of the sequence round trip (one `Far2Long { distance: 100, length: 40 }`,
/// 27 wire bits, 5 pad bits). No symbolic input: everything constant-folds, so this is the only
/// sequence instance that fits the quick tier; the symbolic instances above generalise it.
fn seq1_far2long_fixed() {
    let ms = [Match::Far2Long { distance: 100, length: 40 }];
    let e = encode_matches(&ms);
    let (buf, bits) = match &e {
        Ok((b, n)) => (b, *n),
        Err(_) => panic!("encode_matches refused a valid match"),
    };
    assert!(bits == 27, "Far2Long with length 40 is 3 + 16 + 8 bits");
    assert!(buf.len() == 4);
    // type 6 | distance 100 << 3 | (flag 0, offset 6) << 19, least significant bit first
    let img: [u8; 4] = [38, 3, 96, 0];
    let mut i = 0;
    while i < 4 {
        assert!(buf[i] == img[i], "encoder output differs from the documented wire image");
        i += 1;
    }
    let d = decode_matches(&img);
    match &d {
        Ok((out, consumed)) => {
            assert!(out.len() == 1, "decode_matches returned a different number of matches");
            assert!(same(&out[0], &ms[0]), "decode_matches returned a different match");
            assert!(*consumed == 27, "total bits consumed != total bits written");
        }
        Err(_) => panic!("decode_matches refused the output of encode_matches"),
    }
    zcover!(true, "sequence round trip completed");
    forget(d);
    forget(e);
}

zv_harness! {
    name: c02_matches_seq1_far2long_fixed,
    prop: "C02",
    tier: quick,
    unwind: 6,
    stubs: [alloc::fmt::format => crate::common::stubs::fmt_format],
    targets: "encode_matches, decode_matches (has_bits loop over trailing pad bits), encode_match, decode_match, BitWriter, BitReader",
    bounds: "one concrete sequence: [Far2Long { distance: 100, length: 40 }] (no symbolic input)",
    oracle: "encode_matches Ok, 27 bits, bytes == [38, 3, 96, 0]; decode_matches of those bytes is Ok and returns exactly the input sequence and 27 bits",
    flags: [twin],
    kf: "c02_decode_matches_pad_bits",
    body: { seq1_far2long_fixed() }
}

//! C09 — compressed integer vectors return every stored value unchanged.
//!
//! Containers: `UintVecMin0`, `ZipIntVec`, `IntVec<T>`, `UintVector`, `SortedUintVec`.
//! Shapes (element counts, bit widths, block sizes) are concrete per instance, values symbolic.
use crate::common::*;
use zipora::blob_store::{SortedUintVec, SortedUintVecBuilder, SortedUintVecConfig};
use zipora::containers::{UintVecMin0, ZipIntVec};
use zipora::{IntVec, UintVector};

// ------------------------------------------------------------------------------------------
// UintVecMin0: fixed-width fields addressed as idx*bits
// ------------------------------------------------------------------------------------------

const fn max_of_bits(bits: usize) -> usize {
    if bits == 0 {
        0
    } else if bits >= 64 {
        usize::MAX
    } else {
        (1usize << bits) - 1
    }
}

/// Reference reader of the packed layout: `bits` bits starting at bit `idx*bits`, least significant first.
fn wire_read(data: &[u8], bits: usize, idx: usize) -> usize {
    let mut out: usize = 0;
    let mut k = 0;
    while k < bits {
        let bit = idx * bits + k;
        if (data[bit / 8] >> (bit % 8)) & 1 == 1 {
            out |= 1usize << k;
        }
        k += 1;
    }
    out
}

/// `new(N, 2^BITS-1)`, fill every slot with a symbolic value, overwrite one symbolic slot,
/// read everything back.
fn uvm0_setget<const BITS: usize, const N: usize>() {
    let max = max_of_bits(BITS);
    let mut v = UintVecMin0::new(N, max);
    assert!(v.size() == N, "size not preserved");
    assert!(v.uintbits() == BITS, "width is not floor(log2(max))+1");
    let vals: [usize; N] = vany();
    let mut i = 0;
    while i < N {
        assume(vals[i] <= max);
        v.set(i, vals[i]);
        i += 1;
    }
    let idx = vrange_usize(0, N - 1);
    let nv: usize = vany();
    assume(nv <= max);
    v.set(idx, nv);
    let mut i = 0;
    while i < N {
        let want = if i == idx { nv } else { vals[i] };
        if BITS <= 58 {
            assert!(v.get(i) == want, "UintVecMin0::get(i) differs from the value last set at i");
        } else {
            // get()/fast_get() document a refusal (panic) above 58 bits; the stored value is read
            // from the documented wire layout instead: element i = bits [i*w, i*w+w) of data(), LSB first
            assert!(wire_read(v.data(), BITS, i) == want, "wire bits differ from the value last set at i");
        }
        i += 1;
    }
    assert!(v.size() == N);
    zcover!(BITS == 0 || nv == max, "largest value of the width stored");
    zcover!(idx == N - 1, "last slot overwritten");
    forget(v);
}

macro_rules! c09_uvm0_setget {
    ($name:ident, $tier:ident, $unwind:literal, $bits:literal, $n:literal) => {
        zv_harness! {
            name: $name,
            prop: "C09",
            tier: $tier,
            unwind: $unwind,
            stubs: [alloc::fmt::format => crate::common::stubs::fmt_format],
            targets: "UintVecMin0::new, compute_uintbits, resize_with_uintbits, set (set_uint_bits), get (fast_get_internal), size",
            bounds: "instance = (bit width, element count): max_val = 2^bits-1 concrete; every slot holds a symbolic value <= max_val; one symbolic slot is overwritten with a second symbolic value",
            oracle: "uintbits()==bits, size()==n, and get(i) == value last set at i for every i (array model); for widths above 58 bits, where get() documents a refusal, the value is read back from the documented packed layout of data()",
            body: { uvm0_setget::<$bits, $n>() }
        }
    };
}
c09_uvm0_setget!(c09_uvm0_setget_w0_n4, quick, 40, 0, 4);
c09_uvm0_setget!(c09_uvm0_setget_w1_n4, quick, 40, 1, 4);
c09_uvm0_setget!(c09_uvm0_setget_w7_n4, quick, 40, 7, 4);
c09_uvm0_setget!(c09_uvm0_setget_w2_n4, quick, 40, 2, 4);
c09_uvm0_setget!(c09_uvm0_setget_w3_n4, quick, 40, 3, 4);
c09_uvm0_setget!(c09_uvm0_setget_w5_n4, quick, 40, 5, 4);
c09_uvm0_setget!(c09_uvm0_setget_w8_n4, quick, 40, 8, 4);
c09_uvm0_setget!(c09_uvm0_setget_w9_n4, quick, 40, 9, 4);
c09_uvm0_setget!(c09_uvm0_setget_w13_n4, quick, 40, 13, 4);
c09_uvm0_setget!(c09_uvm0_setget_w15_n4, quick, 40, 15, 4);
c09_uvm0_setget!(c09_uvm0_setget_w16_n4, quick, 40, 16, 4);
c09_uvm0_setget!(c09_uvm0_setget_w17_n4, quick, 40, 17, 4);
c09_uvm0_setget!(c09_uvm0_setget_w23_n4, quick, 40, 23, 4);
c09_uvm0_setget!(c09_uvm0_setget_w24_n4, quick, 40, 24, 4);
c09_uvm0_setget!(c09_uvm0_setget_w25_n4, quick, 40, 25, 4);
c09_uvm0_setget!(c09_uvm0_setget_w27_n4, quick, 40, 27, 4);
c09_uvm0_setget!(c09_uvm0_setget_w29_n4, quick, 40, 29, 4);
c09_uvm0_setget!(c09_uvm0_setget_w30_n4, quick, 40, 30, 4);
c09_uvm0_setget!(c09_uvm0_setget_w31_n4, quick, 40, 31, 4);
c09_uvm0_setget!(c09_uvm0_setget_w32_n4, quick, 40, 32, 4);
c09_uvm0_setget!(c09_uvm0_setget_w41_n4, quick, 50, 41, 4);
c09_uvm0_setget!(c09_uvm0_setget_w48_n4, quick, 50, 48, 4);
c09_uvm0_setget!(c09_uvm0_setget_w49_n4, quick, 60, 49, 4);
c09_uvm0_setget!(c09_uvm0_setget_w56_n4, quick, 60, 56, 4);
c09_uvm0_setget!(c09_uvm0_setget_w33_n4, quick, 40, 33, 4);
c09_uvm0_setget!(c09_uvm0_setget_w57_n4, quick, 60, 57, 4);
c09_uvm0_setget!(c09_uvm0_setget_w58_n4, quick, 60, 58, 4);
c09_uvm0_setget!(c09_uvm0_setget_w57_n9, thorough, 90, 57, 9);
// Widths the type accepts at construction (bits <= 64 is the only check in `new`/`set`) but which
// `get` refuses (documented: "panics if bits > 58"); width 64 computes `1usize << 64`.
c09_uvm0_setget!(c09_uvm0_setget_w59_n4, quick, 66, 59, 4);
c09_uvm0_setget!(c09_uvm0_setget_w63_n4, quick, 66, 63, 4);
c09_uvm0_setget!(c09_uvm0_setget_w64_n4, quick, 66, 64, 4);

/// `build_from_usize` of N symbolic values whose spread (max-min) lies in the width class BITS.
fn uvm0_build_usize<const BITS: usize, const N: usize>() {
    let src: [usize; N] = vany();
    let (mut lo, mut hi) = (src[0], src[0]);
    let mut i = 1;
    while i < N {
        if src[i] < lo { lo = src[i]; }
        if src[i] > hi { hi = src[i]; }
        i += 1;
    }
    let spread = hi - lo;
    assume(spread <= max_of_bits(BITS));
    if BITS > 0 {
        assume(spread > max_of_bits(BITS - 1));
    }
    let (v, min) = UintVecMin0::build_from_usize(&src);
    assert!(min == lo, "returned minimum is not the minimum");
    assert!(v.size() == N, "length not preserved");
    let mut i = 0;
    while i < N {
        assert!(v.get(i) + min == src[i], "build_from_usize: element i differs from input i");
        i += 1;
    }
    zcover!(lo > 0 && src[N - 1] == lo, "non-zero minimum at the last position");
    forget(v);
}

macro_rules! c09_uvm0_build_usize {
    ($name:ident, $tier:ident, $unwind:literal, $bits:literal, $n:literal) => {
        zv_harness! {
            name: $name,
            prop: "C09",
            tier: $tier,
            unwind: $unwind,
            stubs: [alloc::fmt::format => crate::common::stubs::fmt_format],
            targets: "UintVecMin0::build_from_usize, new, set, get",
            bounds: "instance = (width class, n): n symbolic usize values, any minimum, with 2^(bits-1) <= max-min < 2^bits",
            oracle: "returned min == min(input); size()==n; get(i)+min == input[i] for every i",
            body: { uvm0_build_usize::<$bits, $n>() }
        }
    };
}
c09_uvm0_build_usize!(c09_uvm0_build_usize_w5_n3, probe, 40, 5, 3);
c09_uvm0_build_usize!(c09_uvm0_build_usize_w58_n3, probe, 60, 58, 3);
c09_uvm0_build_usize!(c09_uvm0_build_usize_w64_n2, probe, 60, 64, 2);

/// `build_from_i32` / `build_from_u32` over the whole element type (N values, any spread).
fn uvm0_build_i32<const N: usize>(full_range: bool) {
    let src: [i32; N] = vany();
    let (mut lo, mut hi) = (src[0], src[0]);
    let mut i = 1;
    while i < N {
        if src[i] < lo { lo = src[i]; }
        if src[i] > hi { hi = src[i]; }
        i += 1;
    }
    let spread = (hi as i64) - (lo as i64);
    if full_range {
        // spread needs 32 bits: only representable if max-min is computed without i32 overflow
        assume(spread >= (1i64 << 31));
    } else {
        assume(spread < (1i64 << 31) && spread >= (1i64 << 30));
    }
    let (v, min) = UintVecMin0::build_from_i32(&src);
    assert!(min == lo);
    assert!(v.size() == N);
    let mut i = 0;
    while i < N {
        assert!((v.get(i) as i64) + (min as i64) == src[i] as i64, "build_from_i32: element i differs from input i");
        i += 1;
    }
    zcover!(lo < 0 && hi > 0, "mixed signs");
    forget(v);
}

zv_harness! {
    name: c09_uvm0_build_i32_w31_n2,
    prop: "C09",
    tier: probe,
    unwind: 40,
    stubs: [alloc::fmt::format => crate::common::stubs::fmt_format],
    targets: "UintVecMin0::build_from_i32",
    bounds: "2 symbolic i32 values with 2^30 <= max-min < 2^31 (width class 31)",
    oracle: "min == min(input); size()==2; get(i)+min == input[i]",
    body: { uvm0_build_i32::<2>(false) }
}
zv_harness! {
    name: c09_uvm0_build_i32_w32_n2,
    prop: "C09",
    tier: probe,
    unwind: 40,
    stubs: [alloc::fmt::format => crate::common::stubs::fmt_format],
    targets: "UintVecMin0::build_from_i32 (max_val - min_val in i32)",
    bounds: "2 symbolic i32 values with max-min >= 2^31 (e.g. i32::MIN and i32::MAX): the type's extremes",
    oracle: "min == min(input); size()==2; get(i)+min == input[i]",
    body: { uvm0_build_i32::<2>(true) }
}

zv_harness! {
    name: c09_uvm0_build_u32_w32_n3,
    prop: "C09",
    tier: probe,
    unwind: 40,
    stubs: [alloc::fmt::format => crate::common::stubs::fmt_format],
    targets: "UintVecMin0::build_from_u32",
    bounds: "3 symbolic u32 values with max-min >= 2^31 (width class 32, includes 0 and u32::MAX)",
    oracle: "min == min(input); size()==3; get(i)+min == input[i]",
    body: {
        let src: [u32; 3] = vany();
        let lo = src[0].min(src[1]).min(src[2]);
        let hi = src[0].max(src[1]).max(src[2]);
        assume(hi - lo >= (1u32 << 31));
        let (v, min) = UintVecMin0::build_from_u32(&src);
        assert!(min == lo);
        assert!(v.size() == 3);
        let mut i = 0;
        while i < 3 {
            assert!(v.get(i) as u64 + min as u64 == src[i] as u64, "build_from_u32: element i differs from input i");
            i += 1;
        }
        zcover!(lo == 0 && hi == u32::MAX, "full u32 range");
        forget(v);
    }
}

/// push_back: concrete width-changing pushes interleaved with symbolic values of the current width.
zv_harness! {
    name: c09_uvm0_push_grow_w3_w9,
    prop: "C09",
    tier: probe,
    unwind: 70,
    stubs: [alloc::fmt::format => crate::common::stubs::fmt_format],
    targets: "UintVecMin0::new_empty, push_back, push_back_slow_path (rebuild with larger width / more capacity), get, back",
    bounds: "5 pushes on an empty vector: 0, 5 (width 0->3), symbolic a<=7, 300 (width 3->9), symbolic b<=511",
    oracle: "size()==5 and get(i) == i-th pushed value; back() == last pushed",
    body: {
        let mut v = UintVecMin0::new_empty();
        let a: usize = vany();
        let b: usize = vany();
        assume(a <= 7 && b <= 511);
        v.push_back(0);
        v.push_back(5);
        v.push_back(a);
        v.push_back(300);
        v.push_back(b);
        assert!(v.size() == 5, "length after 5 pushes");
        assert!(v.get(0) == 0 && v.get(1) == 5 && v.get(2) == a && v.get(3) == 300 && v.get(4) == b,
            "push_back: element i differs from i-th pushed value");
        assert!(v.back() == b);
        zcover!(a == 7 && b == 511, "largest values of both widths");
        forget(v);
    }
}

// ------------------------------------------------------------------------------------------
// ZipIntVec: min-offset wrapper
// ------------------------------------------------------------------------------------------

fn zipintvec_build<const BITS: usize, const N: usize>(near_top: bool) {
    let src: [usize; N] = vany();
    let (mut lo, mut hi) = (src[0], src[0]);
    let mut i = 1;
    while i < N {
        if src[i] < lo { lo = src[i]; }
        if src[i] > hi { hi = src[i]; }
        i += 1;
    }
    let spread = hi - lo;
    assume(spread <= max_of_bits(BITS));
    if BITS > 0 {
        assume(spread > max_of_bits(BITS - 1));
    }
    if near_top {
        // values close to usize::MAX: min + (2^bits - 1) does not fit in usize
        assume(lo > usize::MAX - max_of_bits(BITS));
    } else {
        assume(lo <= usize::MAX - max_of_bits(BITS));
    }
    let v = ZipIntVec::build_from_usize(&src);
    assert!(v.size() == N, "length not preserved");
    assert!(v.min_val() == lo);
    let mut i = 0;
    while i < N {
        assert!(v.get(i) == src[i], "ZipIntVec::get(i) differs from input i");
        i += 1;
    }
    zcover!(src[N - 1] == lo && lo > 0, "minimum is last and non-zero");
    forget(v);
}

macro_rules! c09_zipintvec_build {
    ($name:ident, $tier:ident, $unwind:literal, $bits:literal, $n:literal, $top:literal) => {
        zv_harness! {
            name: $name,
            prop: "C09",
            tier: $tier,
            unwind: $unwind,
            stubs: [alloc::fmt::format => crate::common::stubs::fmt_format],
            targets: "ZipIntVec::build_from_usize, new, set, get, size, min_val (over UintVecMin0)",
            bounds: "instance = (width class of max-min, n, near_top): n symbolic usize values; near_top=true restricts to min > usize::MAX-(2^bits-1) (values at the top of the type), false to the rest",
            oracle: "size()==n, min_val()==min(input), get(i)==input[i] for every i",
            body: { zipintvec_build::<$bits, $n>($top) }
        }
    };
}
c09_zipintvec_build!(c09_zipintvec_build_w3_n3, probe, 40, 3, 3, false);
c09_zipintvec_build!(c09_zipintvec_build_w3_n3_top, probe, 40, 3, 3, true);
c09_zipintvec_build!(c09_zipintvec_build_w0_n3, probe, 40, 0, 3, false);
c09_zipintvec_build!(c09_zipintvec_build_w40_n3, probe, 60, 40, 3, false);

/// `ZipIntVec::new(N, MIN, MAX)` with a concrete range (concrete width), symbolic values and index.
fn zipintvec_setget<const N: usize>(min: usize, max: usize) {
    let mut v = ZipIntVec::new(N, min, max);
    assert!(v.size() == N && v.min_val() == min);
    let vals: [usize; N] = vany();
    let mut i = 0;
    while i < N {
        assume(vals[i] >= min && vals[i] <= max);
        v.set(i, vals[i]);
        i += 1;
    }
    let idx = vrange_usize(0, N - 1);
    let nv: usize = vany();
    assume(nv >= min && nv <= max);
    v.set(idx, nv);
    let mut i = 0;
    while i < N {
        let want = if i == idx { nv } else { vals[i] };
        assert!(v.get(i) == want, "ZipIntVec::get(i) differs from the value last set at i");
        i += 1;
    }
    zcover!(nv == max && idx == N - 1, "largest value in the last slot");
    zcover!(nv == min, "smallest value stored");
    forget(v);
}

macro_rules! c09_zipintvec_setget {
    ($name:ident, $tier:ident, $unwind:literal, $n:literal, $min:expr, $max:expr) => {
        zv_harness! {
            name: $name,
            prop: "C09",
            tier: $tier,
            unwind: $unwind,
            stubs: [alloc::fmt::format => crate::common::stubs::fmt_format],
            targets: "ZipIntVec::new, set (range check min_val + uintmask), get, size, min_val (over UintVecMin0)",
            bounds: "instance = (n, min, max) concrete: every slot holds a symbolic value in [min, max]; one symbolic slot is overwritten with a second symbolic value in [min, max]",
            oracle: "size()==n, min_val()==min, get(i) == value last set at i for every i; every value in [min, max] is accepted by set",
            body: { zipintvec_setget::<$n>($min, $max) }
        }
    };
}
c09_zipintvec_setget!(c09_zipintvec_setget_n4_100_105, quick, 40, 4, 100, 105);
c09_zipintvec_setget!(c09_zipintvec_setget_n4_mid_w33, quick, 40, 4, 1usize << 40, (1usize << 40) + (1usize << 32));
c09_zipintvec_setget!(c09_zipintvec_setget_n4_top, quick, 40, 4, usize::MAX - 4, usize::MAX);

zv_harness! {
    name: c09_zipintvec_build_u32_n3,
    prop: "C09",
    tier: probe,
    unwind: 40,
    stubs: [alloc::fmt::format => crate::common::stubs::fmt_format],
    targets: "ZipIntVec::build_from_u32",
    bounds: "3 symbolic u32 values with max-min < 8 (any minimum incl. u32::MAX, all-equal included)",
    oracle: "size()==3, get(i)==input[i]",
    body: {
        let src: [u32; 3] = vany();
        let lo = src[0].min(src[1]).min(src[2]);
        let hi = src[0].max(src[1]).max(src[2]);
        assume(hi - lo < 8);
        let v = ZipIntVec::build_from_u32(&src);
        assert!(v.size() == 3);
        let mut i = 0;
        while i < 3 {
            assert!(v.get(i) == src[i] as usize, "ZipIntVec::build_from_u32: element i differs");
            i += 1;
        }
        zcover!(lo == hi, "all equal");
        zcover!(lo != hi, "not all equal");
        forget(v);
    }
}

// ------------------------------------------------------------------------------------------
// IntVec<T>: strategy analysis + bit packing
// ------------------------------------------------------------------------------------------

macro_rules! c09_intvec_small {
    ($name:ident, $tier:ident, $unwind:literal, $t:ty, $n:literal) => {
        zv_harness! {
            name: $name,
            prop: "C09",
            tier: $tier,
            unwind: $unwind,
            stubs: [
                alloc::fmt::format => crate::common::stubs::fmt_format,
                std::time::Instant::now => crate::common::stubs::instant_now,
                std::time::Instant::elapsed => crate::common::stubs::instant_elapsed
            ],
            targets: "IntVec::<T>::from_slice (analyze_small_dataset_strategy, fast_sorted_check, detect_uniform_delta, analyze_delta_bulk, compress_raw/min_max/delta, write_bits), get (get_raw/get_min_max/get_delta, read_bits), len",
            bounds: "instance = (T, n): n fully symbolic values of T (every strategy the small-dataset heuristic can choose for n elements)",
            oracle: "from_slice is Ok or Err; if Ok: len()==n, get(i)==Some(input[i]) for all i, get(n)==None",
            body: {
                let src: [$t; $n] = vany();
                let r = IntVec::<$t>::from_slice(&src);
                match &r {
                    Ok(v) => {
                        assert!(v.len() == $n, "length not preserved");
                        let mut i = 0;
                        while i < $n {
                            assert!(v.get(i) == Some(src[i]), "IntVec::get(i) differs from input i");
                            i += 1;
                        }
                        assert!(v.get($n).is_none(), "read past the end not refused");
                        zcover!(true, "built and read back");
                    }
                    Err(_) => {}
                }
                forget(r);
            }
        }
    };
}
c09_intvec_small!(c09_intvec_u8_n3, quick, 40, u8, 3);
c09_intvec_small!(c09_intvec_i8_n3, quick, 40, i8, 3);
c09_intvec_small!(c09_intvec_u64_n3, quick, 40, u64, 3);
c09_intvec_small!(c09_intvec_i64_n3, quick, 40, i64, 3);
c09_intvec_small!(c09_intvec_i32_n1, quick, 40, i32, 1);
c09_intvec_small!(c09_intvec_u8_n4, probe, 40, u8, 4);
c09_intvec_small!(c09_intvec_i8_n4, probe, 40, i8, 4);
c09_intvec_small!(c09_intvec_u64_n4, probe, 70, u64, 4);
c09_intvec_small!(c09_intvec_i64_n4, probe, 70, i64, 4);
c09_intvec_small!(c09_intvec_u16_n4, probe, 40, u16, 4);
c09_intvec_small!(c09_intvec_i16_n4, probe, 40, i16, 4);
c09_intvec_small!(c09_intvec_u32_n4, probe, 40, u32, 4);
c09_intvec_small!(c09_intvec_i32_n4, probe, 40, i32, 4);
c09_intvec_small!(c09_intvec_u32_n8, probe, 60, u32, 8);

// ---- IntVec: directed shapes (pinned strategy) ---------------------------------------------

zv_harness! {
    name: c09_intvec_u64_minmax_wide_n4,
    prop: "C09",
    tier: probe,
    unwind: 70,
    stubs: [
        alloc::fmt::format => crate::common::stubs::fmt_format,
        std::time::Instant::now => crate::common::stubs::instant_now,
        std::time::Instant::elapsed => crate::common::stubs::instant_elapsed
    ],
    targets: "IntVec::<u64>::from_slice -> MinMax strategy with bit_width 58..=63 (compress_min_max, write_bits fallback; get_min_max, read_bits with bit_in_byte + bits > 64)",
    bounds: "4 values [hi, 0, a, b]: hi symbolic with 2^57 <= hi < 2^63, a,b symbolic <= hi; position 0 > position 1 so the sequence is unsorted (MinMax path), min is 0",
    oracle: "from_slice Ok or Err; if Ok: len()==4 and get(i)==Some(input[i]) for all i",
    body: {
        let hi: u64 = vany();
        let a: u64 = vany();
        let b: u64 = vany();
        assume(hi >= (1u64 << 57) && hi < (1u64 << 63) && a <= hi && b <= hi);
        let src = [hi, 0u64, a, b];
        let r = IntVec::<u64>::from_slice(&src);
        match &r {
            Ok(v) => {
                assert!(v.len() == 4);
                let mut i = 0;
                while i < 4 {
                    assert!(v.get(i) == Some(src[i]), "IntVec::get(i) differs from input i (wide MinMax)");
                    i += 1;
                }
                zcover!(true, "built and read back");
            }
            Err(_) => {}
        }
        forget(r);
    }
}

/// Wide MinMax fields with a CONCRETE maximum (so the strategy analysis and the width are
/// concrete) and symbolic other values: element 2 (W = 59, 62, 63) or element 3 (W = 61, 63)
/// starts inside a byte and ends in a ninth byte (bit_in_byte + width > 64).
fn intvec_wide_ninth<const W: u32>() {
    let hi: u64 = (1u64 << W) - 1;
    let a: u64 = vany();
    let b: u64 = vany();
    assume(a <= hi && b <= hi);
    // four elements: below that from_slice stores raw words; [hi, 0, ..] is unsorted -> MinMax
    let src = [hi, 0u64, a, b];
    let r = IntVec::<u64>::from_slice(&src);
    match &r {
        Ok(v) => {
            assert!(v.len() == 4, "IntVec::len differs from the input length");
            assert!(v.get(0) == Some(src[0]), "IntVec::get(0) differs from input 0 (wide MinMax)");
            assert!(v.get(1) == Some(src[1]), "IntVec::get(1) differs from input 1 (wide MinMax)");
            assert!(v.get(2) == Some(src[2]), "IntVec::get(2) differs from input 2 (wide MinMax)");
            assert!(v.get(3) == Some(src[3]), "IntVec::get(3) differs from input 3 (wide MinMax)");
            assert!(v.get(4).is_none(), "IntVec::get past the end returned a value");
            zcover!(a >> (W - 2) == 3 && b >> (W - 2) == 3, "built, elements 2 and 3 have their two top field bits set");
        }
        Err(_) => {}
    }
    forget(r);
}
macro_rules! c09_intvec_wide_ninth {
    ($name:ident, $tier:ident, $unwind:literal, $w:literal) => {
        zv_harness! {
            name: $name,
            prop: "C09",
            tier: $tier,
            unwind: $unwind,
            stubs: [
                alloc::fmt::format => crate::common::stubs::fmt_format,
                std::time::Instant::now => crate::common::stubs::instant_now,
                std::time::Instant::elapsed => crate::common::stubs::instant_elapsed
            ],
            targets: "IntVec::<u64>::from_slice (strategy analysis, compress_min_max, write_bits incl. its bit-by-bit fallback), get -> get_min_max -> read_bits for a field that spills into a ninth byte",
            bounds: "4 values [2^W - 1, 0, a, b], W from the instance (59, 61, 62, 63), a and b symbolic <= 2^W - 1 (4 is the smallest length from_slice does not store as raw words)",
            oracle: "from_slice Ok or Err; if Ok: len()==4, get(i)==Some(input[i]) for i<4, get(4)==None",
            body: { intvec_wide_ninth::<$w>() }
        }
    };
}
c09_intvec_wide_ninth!(c09_intvec_u64_wide_ninth_w59_n4, probe, 70, 59);
c09_intvec_wide_ninth!(c09_intvec_u64_wide_ninth_w61_n4, probe, 70, 61);
c09_intvec_wide_ninth!(c09_intvec_u64_wide_ninth_w62_n4, probe, 70, 62);
c09_intvec_wide_ninth!(c09_intvec_u64_wide_ninth_w63_n4, probe, 70, 63);

/// 32 / 34 elements: `fast_sorted_check` and `analyze_delta_bulk` sample every 2nd element.
fn intvec_sampled<const N: usize>(sorted: bool) {
    // concrete ascending base 10*i, three symbolic positions: 1 (between samples), N-1 (after the
    // last sample), N/2
    let mut src = [0u32; N];
    let mut i = 0;
    while i < N { src[i] = 10 * i as u32; i += 1; }
    let x: u32 = vany();
    let y: u32 = vany();
    let z: u32 = vany();
    src[1] = x;
    src[N / 2 + 1] = z;
    src[N - 1] = y;
    if sorted {
        assume(x <= 20 && z >= src[N / 2] && z <= src[N / 2 + 2] && y >= src[N - 2]);
    }
    let r = IntVec::<u32>::from_slice(&src);
    match &r {
        Ok(v) => {
            assert!(v.len() == N);
            let mut i = 0;
            while i < N {
                assert!(v.get(i) == Some(src[i]), "IntVec::get(i) differs from input i");
                i += 1;
            }
            zcover!(true, "built and read back");
        }
        Err(_) => {}
    }
    forget(r);
}

macro_rules! c09_intvec_sampled {
    ($name:ident, $tier:ident, $unwind:literal, $n:literal, $sorted:literal) => {
        zv_harness! {
            name: $name,
            prop: "C09",
            tier: $tier,
            unwind: $unwind,
            stubs: [
                alloc::fmt::format => crate::common::stubs::fmt_format,
                std::time::Instant::now => crate::common::stubs::instant_now,
                std::time::Instant::elapsed => crate::common::stubs::instant_elapsed
            ],
            targets: "IntVec::<u32>::from_slice at n >= 32 where fast_sorted_check / analyze_delta_bulk sample every (n/16)-th element; compress_delta, get_delta",
            bounds: "instance = (n, sorted): n u32 values 10*i except three symbolic ones at index 1, n/2+1 and n-1; sorted=true constrains them so the whole sequence is non-decreasing (the last one unbounded above), false leaves them free",
            oracle: "from_slice Ok or Err (no panic); if Ok: len()==n and get(i)==Some(input[i]) for all i",
            body: { intvec_sampled::<$n>($sorted) }
        }
    };
}
c09_intvec_sampled!(c09_intvec_u32_n32_sorted, probe, 80, 32, true);
c09_intvec_sampled!(c09_intvec_u32_n32_any, probe, 80, 32, false);
c09_intvec_sampled!(c09_intvec_u32_n34_sorted, probe, 80, 34, true);

/// from_slice_bulk_simd, 65..=2048 elements: analyze_fast_strategy + compress_*_bulk_simd.
fn intvec_simd<const N: usize>() {
    let mut src = [0u8; N];
    let a: u8 = vany();
    let b: u8 = vany();
    let c: u8 = vany();
    // concrete 0/1 pattern that is neither sorted nor constant; symbolic values restricted to the
    // same range so the bit width stays 1
    let mut i = 0;
    while i < N { src[i] = ((i / 3) % 2) as u8; i += 1; }
    assume(a <= 1 && b <= 1 && c <= 1);
    src[5] = a;
    src[N / 2] = b;
    src[N - 1] = c;
    let r = IntVec::<u8>::from_slice_bulk_simd(&src);
    match &r {
        Ok(v) => {
            assert!(v.len() == N);
            let mut i = 0;
            while i < N {
                assert!(v.get(i) == Some(src[i]), "IntVec::get(i) differs from input i (bulk simd)");
                i += 1;
            }
            zcover!(c == 1, "last element set");
        }
        Err(_) => {}
    }
    forget(r);
}

macro_rules! c09_intvec_simd {
    ($name:ident, $tier:ident, $unwind:literal, $n:literal) => {
        zv_harness! {
            name: $name,
            prop: "C09",
            tier: $tier,
            unwind: $unwind,
            stubs: [
                alloc::fmt::format => crate::common::stubs::fmt_format,
                std::time::Instant::now => crate::common::stubs::instant_now,
                std::time::Instant::elapsed => crate::common::stubs::instant_elapsed,
                std::arch::x86_64::__cpuid_count => crate::common::stubs::cpuid_zero
            ],
            targets: "IntVec::<u8>::from_slice_bulk_simd (from_slice_bulk_simd_internal, analyze_fast_strategy, compress_min_max_bulk_simd, write_bits_bulk 8-byte unaligned store), get",
            bounds: "instance = n in 65..=2048: n u8 values in {0,1} (bit width 1), concrete non-sorted pattern with three symbolic positions 5, n/2, n-1",
            oracle: "no out-of-bounds access while packing (CBMC pointer checks); Ok => len()==n and get(i)==Some(input[i]) for all i",
            body: { intvec_simd::<$n>() }
        }
    };
}
c09_intvec_simd!(c09_intvec_simd_u8_n72, probe, 150, 72);
c09_intvec_simd!(c09_intvec_simd_u8_n73, probe, 150, 73);

// ------------------------------------------------------------------------------------------
// Reads past the end are refused (the packed vectors document a panic)
// ------------------------------------------------------------------------------------------

fn zipintvec_oob<const N: usize>(min: usize, max: usize) {
    let mut v = ZipIntVec::new(N, min, max);
    let val: usize = vany();
    assume(val >= min && val <= max);
    v.set(N - 1, val);
    let idx: usize = vany();
    assume(idx >= N && idx < N + 40);
    zcover!(idx == N, "index just past the end");
    zcover!(idx == N + 39, "opt: index far past the end");
    let got = v.get(idx);
    let _ = got;
    assert!(false, "ZV_NOT_REFUSED: ZipIntVec::get(idx >= size) returned a value");
}
macro_rules! c09_zipintvec_oob {
    ($name:ident, $tier:ident, $unwind:literal, $n:literal, $min:expr, $max:expr) => {
        zv_harness! {
            name: $name,
            prop: "C09",
            tier: $tier,
            unwind: $unwind,
            stubs: [alloc::fmt::format => crate::common::stubs::fmt_format],
            targets: "ZipIntVec::{new, set, get} / UintVecMin0::get bounds assertion",
            bounds: "instance = (n, min, max): n slots, offset width fixed by max-min; symbolic index in [n, n+40) (inside and beyond the padded allocation)",
            oracle: "get(idx) with idx >= size never returns: it is refused by the documented panic (the statement after the call is unreachable for every such idx)",
            flags: [expect_refusal],
            body: { zipintvec_oob::<$n>($min, $max) }
        }
    };
}
c09_zipintvec_oob!(c09_zipintvec_oob_w8, quick, 40, 3, 1000, 1255);
c09_zipintvec_oob!(c09_zipintvec_oob_w16, quick, 40, 3, 1000, 66535);
c09_zipintvec_oob!(c09_zipintvec_oob_w7, quick, 40, 3, 1000, 1127);
c09_zipintvec_oob!(c09_zipintvec_oob_w32, quick, 40, 3, 0, 4294967295);

fn uvm0_oob<const BITS: usize, const N: usize>() {
    let v = UintVecMin0::new(N, max_of_bits(BITS));
    let idx: usize = vany();
    assume(idx >= N && idx < N + 40);
    zcover!(idx == N, "index just past the end");
    let got = v.get(idx);
    let _ = got;
    assert!(false, "ZV_NOT_REFUSED: UintVecMin0::get(idx >= size) returned a value");
}
macro_rules! c09_uvm0_oob {
    ($name:ident, $tier:ident, $unwind:literal, $bits:literal, $n:literal) => {
        zv_harness! {
            name: $name,
            prop: "C09",
            tier: $tier,
            unwind: $unwind,
            stubs: [alloc::fmt::format => crate::common::stubs::fmt_format],
            targets: "UintVecMin0::{new, get} bounds assertion",
            bounds: "instance = (bit width, n): symbolic index in [n, n+40)",
            oracle: "get(idx) with idx >= size never returns (documented panic)",
            flags: [expect_refusal],
            body: { uvm0_oob::<$bits, $n>() }
        }
    };
}
c09_uvm0_oob!(c09_uvm0_oob_w8_n3, quick, 40, 8, 3);
c09_uvm0_oob!(c09_uvm0_oob_w13_n3, quick, 40, 13, 3);

// ------------------------------------------------------------------------------------------
// UintVector
// ------------------------------------------------------------------------------------------

fn uintvector_build<const N: usize>(max: u32, base_any: bool) {
    let src: [u32; N] = vany();
    let base: u32 = if base_any { vany() } else { 0 };
    let mut i = 0;
    while i < N {
        assume(src[i] >= base && src[i] - base <= max);
        i += 1;
    }
    let r = UintVector::build_from(&src);
    match &r {
        Ok(v) => {
            assert!(v.len() == N, "length not preserved");
            let mut i = 0;
            while i < N {
                assert!(v.get(i) == Some(src[i]), "UintVector::get(i) differs from input i");
                i += 1;
            }
            assert!(v.get(N).is_none(), "read past the end not refused");
            zcover!(true, "built and read back");
        }
        Err(_) => {}
    }
    forget(r);
}

macro_rules! c09_uintvector_build {
    ($name:ident, $tier:ident, $unwind:literal, $n:literal, $max:literal, $any:literal) => {
        zv_harness! {
            name: $name,
            prop: "C09",
            tier: $tier,
            unwind: $unwind,
            stubs: [alloc::fmt::format => crate::common::stubs::fmt_format],
            targets: "UintVector::build_from (analyze_optimal_strategy: run-length / min-max bit packed / raw; compress_*; write_bits_fast), get (get_raw / get_min_max_bit_packed / get_run_length), len",
            bounds: "instance = (n, max, any_base): n symbolic u32 values in [base, base+max], base symbolic (any_base) or 0",
            oracle: "build_from Ok or Err; if Ok: len()==n, get(i)==Some(input[i]) for all i, get(n)==None",
            body: { uintvector_build::<$n>($max, $any) }
        }
    };
}
c09_uintvector_build!(c09_uintvector_build_n4_full, probe, 40, 4, 4294967295, false);
c09_uintvector_build!(c09_uintvector_build_n12_w2, probe, 60, 12, 3, true);
c09_uintvector_build!(c09_uintvector_build_n12_w8, probe, 60, 12, 256, true);
c09_uintvector_build!(c09_uintvector_build_n12_full, probe, 60, 12, 4294967295, false);

/// Twelve elements (bit packing needs more than 10), ten of them concrete (100..=109) and two symbolic
/// in [100, 100+SPAN]: the value range max-min - which selects the packed width - is a solver choice.
fn uintvector_build_mixed<const LO: u32, const HI: u32>() {
    let mut src = [100u32, 101, 102, 103, 104, 105, 106, 107, 108, 109, 100, 0];
    let x: u32 = vany();
    assume(x >= 100 + LO && x <= 100 + HI);
    src[11] = x;
    let r = UintVector::build_from(&src);
    match &r {
        Ok(v) => {
            assert!(v.len() == 12, "length not preserved");
            let mut i = 0;
            while i < 12 {
                assert!(v.get(i) == Some(src[i]), "UintVector::get(i) differs from input i");
                i += 1;
            }
            assert!(v.get(12).is_none(), "read past the end not refused");
            zcover!(x == 100 + HI, "largest value of the span stored");
        }
        Err(_) => {}
    }
    forget(r);
}
macro_rules! c09_uintvector_mixed {
    ($name:ident, $tier:ident, $unwind:literal, $lo:literal, $hi:literal) => {
        zv_harness! {
            name: $name,
            prop: "C09",
            tier: $tier,
            unwind: $unwind,
            stubs: [alloc::fmt::format => crate::common::stubs::fmt_format],
            targets: "UintVector::build_from (analyze_optimal_strategy, min-max bit packing: width from the value range; write_bits_fast), get, len",
            bounds: "12 elements: eleven concrete (100..=109, 100) plus one symbolic value in [100+LO, 100+HI] (instance args), i.e. the value range max-min runs over LO..=HI, chosen to straddle a power of two",
            oracle: "build_from Ok or Err; if Ok: len()==12, get(i)==Some(input[i]) for all i, get(12)==None",
            body: { uintvector_build_mixed::<$lo, $hi>() }
        }
    };
}
c09_uintvector_mixed!(c09_uintvector_mixed_r14_17, probe, 20, 14, 17);
c09_uintvector_mixed!(c09_uintvector_mixed_r30_33, probe, 20, 30, 33);
c09_uintvector_mixed!(c09_uintvector_mixed_r9_300, probe, 20, 9, 300);

zv_harness! {
    name: c09_uintvector_push_n5,
    prop: "C09",
    tier: quick,
    unwind: 20,
    stubs: [alloc::fmt::format => crate::common::stubs::fmt_format],
    targets: "UintVector::new, push (temp_values / quick_append), get, len",
    bounds: "5 pushes of fully symbolic u32 values (below the 64-element recompression point)",
    oracle: "every push Ok; len()==5; get(i)==Some(i-th pushed value); get(5)==None",
    body: {
        let src: [u32; 5] = vany();
        let mut v = UintVector::new();
        let mut i = 0;
        while i < 5 {
            let r = v.push(src[i]);
            assert!(r.is_ok(), "push refused");
            forget(r);
            i += 1;
        }
        assert!(v.len() == 5);
        let mut i = 0;
        while i < 5 {
            assert!(v.get(i) == Some(src[i]), "UintVector::get(i) differs from i-th pushed value");
            i += 1;
        }
        assert!(v.get(5).is_none());
        zcover!(src[4] == u32::MAX, "extreme value pushed");
        forget(v);
    }
}

zv_harness! {
    name: c09_uintvector_push_n65,
    prop: "C09",
    tier: probe,
    unwind: 140,
    stubs: [alloc::fmt::format => crate::common::stubs::fmt_format],
    targets: "UintVector::push across the 64-element recompression (recompress_all, analyze_optimal_strategy, compress_*), get over compressed part + temp part",
    bounds: "65 pushes: value i%5 + base except three symbolic values (positions 0, 63, 64) in [base, base+7]; base symbolic",
    oracle: "every push Ok; len()==65; get(i)==Some(i-th pushed value) for all i; get(65)==None",
    body: {
        let base: u32 = vany();
        assume(base <= u32::MAX - 8);
        let a: u32 = vany(); let b: u32 = vany(); let c: u32 = vany();
        assume(a <= 7 && b <= 7 && c <= 7);
        let mut src = [0u32; 65];
        let mut i = 0;
        while i < 65 { src[i] = base + (i % 5) as u32; i += 1; }
        src[0] = base + a; src[63] = base + b; src[64] = base + c;
        let mut v = UintVector::new();
        let mut i = 0;
        while i < 65 {
            let r = v.push(src[i]);
            assert!(r.is_ok(), "push refused");
            forget(r);
            i += 1;
        }
        assert!(v.len() == 65);
        let mut i = 0;
        while i < 65 {
            assert!(v.get(i) == Some(src[i]), "UintVector::get(i) differs from i-th pushed value");
            i += 1;
        }
        assert!(v.get(65).is_none());
        zcover!(a == 7 && c == 7, "largest offsets");
        forget(v);
    }
}

// ------------------------------------------------------------------------------------------
// SortedUintVec
// ------------------------------------------------------------------------------------------

/// N sorted values: `first` symbolic, then symbolic non-negative steps; SIMD paths off.
fn sorted_uv<const N: usize>(cfg: SortedUintVecConfig, small_first: bool) {
    let first: u64 = vany();
    let steps: [u16; N] = vany();
    if small_first {
        // first value representable in sample_width bits
        assume(cfg.sample_width >= 64 || first < (1u64 << cfg.sample_width));
    }
    assume(first <= u64::MAX - (N as u64) * 65536);
    let mut src = [0u64; N];
    let mut cur = first;
    let mut i = 0;
    while i < N {
        if i > 0 { cur += steps[i] as u64; }
        src[i] = cur;
        i += 1;
    }
    let mut b = SortedUintVecBuilder::with_config(cfg);
    let mut i = 0;
    while i < N {
        let r = b.push(src[i]);
        assert!(r.is_ok(), "push of a non-decreasing value refused");
        forget(r);
        i += 1;
    }
    let r = b.finish();
    match &r {
        Ok(v) => {
            assert!(v.len() == N, "length not preserved");
            let mut i = 0;
            while i < N {
                let g = v.get(i);
                match &g { Ok(x) => assert!(*x == src[i], "SortedUintVec::get(i) differs from input i"), Err(_) => panic!("get(i) refused for i < len") }
                forget(g);
                i += 1;
            }
            if N >= 2 {
                let g2 = v.get2(N - 2);
                match &g2 { Ok((x, y)) => assert!(*x == src[N - 2] && *y == src[N - 1], "get2 differs"), Err(_) => panic!("get2 refused") }
                forget(g2);
            }
            let ge = v.get(N);
            assert!(ge.is_err(), "read past the end not refused");
            forget(ge);
            zcover!(true, "built and read back");
        }
        Err(_) => {
            // refusal is allowed (e.g. a delta too large for offset_width)
        }
    }
    forget(r);
}

macro_rules! c09_sorteduv {
    ($name:ident, $tier:ident, $unwind:literal, $n:literal, $log2:literal, $ow:literal, $sw:literal, $small:literal) => {
        zv_harness! {
            name: $name,
            prop: "C09",
            tier: $tier,
            unwind: $unwind,
            stubs: [
                alloc::fmt::format => crate::common::stubs::fmt_format,
                std::rt::thread_cleanup => crate::common::stubs::noop
            ],
            targets: "SortedUintVecBuilder::with_config, push, finish (compress_values, store_sample_static, store_delta_static, store_bits_static); SortedUintVec::get, get2, len (get_block_min_val, get_block_delta, extract_bits_portable)",
            bounds: "instance = (n, log2_block_units, offset_width, sample_width, small_first): n sorted u64 values = symbolic first value + symbolic u16 steps; small_first=true restricts the first value to < 2^sample_width, false leaves it free (any u64); use_simd=false",
            oracle: "every push of a non-decreasing value is Ok; finish is Ok or Err; if Ok: len()==n, get(i)==Ok(input[i]) for all i, get2(n-2) == the last pair, get(n) is Err",
            body: {
                sorted_uv::<$n>(SortedUintVecConfig { log2_block_units: $log2, offset_width: $ow, sample_width: $sw, use_simd: false }, $small)
            }
        }
    };
}
c09_sorteduv!(c09_sorteduv_n3_b16_o16_s32_small, probe, 12, 3, 4, 16, 32, true);
c09_sorteduv!(c09_sorteduv_n3_b16_o16_s32_any, probe, 12, 3, 4, 16, 32, false);
c09_sorteduv!(c09_sorteduv_n3_b16_o20_s64_any, probe, 12, 3, 4, 20, 64, false);
c09_sorteduv!(c09_sorteduv_n17_b16_o16_s40_small, probe, 20, 17, 4, 16, 40, true);
c09_sorteduv!(c09_sorteduv_n17_b16_o16_s61_small, probe, 20, 17, 4, 16, 61, true);

/// N copies of one symbolic value (the builder's sortedness test `value < last` is then decided
/// syntactically, which keeps every length concrete for the solver).
fn sorted_uv_repeat<const N: usize>(cfg: SortedUintVecConfig) {
    let x: u64 = vany();
    let mut b = SortedUintVecBuilder::with_config(cfg);
    let mut i = 0;
    while i < N {
        let r = b.push(x);
        assert!(r.is_ok(), "push of a non-decreasing value refused");
        forget(r);
        i += 1;
    }
    let r = b.finish();
    match &r {
        Ok(v) => {
            assert!(v.len() == N, "length not preserved");
            let mut i = 0;
            while i < N {
                let g = v.get(i);
                match &g { Ok(y) => assert!(*y == x, "SortedUintVec::get(i) differs from input i"), Err(_) => panic!("get(i) refused for i < len") }
                forget(g);
                i += 1;
            }
            let ge = v.get(N);
            assert!(ge.is_err(), "read past the end not refused");
            forget(ge);
            zcover!(x == u64::MAX, "largest u64 stored");
            zcover!(x == 0, "zero stored");
        }
        Err(_) => {}
    }
    forget(r);
}

macro_rules! c09_sorteduv_repeat {
    ($name:ident, $tier:ident, $unwind:literal, $n:literal, $log2:literal, $ow:literal, $sw:literal) => {
        zv_harness! {
            name: $name,
            prop: "C09",
            tier: $tier,
            unwind: $unwind,
            stubs: [
                alloc::fmt::format => crate::common::stubs::fmt_format,
                std::io::_eprint => crate::c09_intvec::eprint_noop,
                std::rt::thread_cleanup => crate::common::stubs::noop
            ],
            targets: "SortedUintVecBuilder::with_config, push, finish (compress_values, store_sample_static: block base masked to sample_width bits); SortedUintVec::get, len (get_block_min_val, extract_bits_portable)",
            bounds: "instance = (n, log2_block_units, offset_width, sample_width): n copies of one symbolic u64 value (any value, incl. >= 2^sample_width); use_simd=false",
            oracle: "every push Ok; finish is Ok or Err; if Ok: len()==n, get(i)==Ok(x) for all i, get(n) is Err",
            body: {
                sorted_uv_repeat::<$n>(SortedUintVecConfig { log2_block_units: $log2, offset_width: $ow, sample_width: $sw, use_simd: false })
            }
        }
    };
}
c09_sorteduv_repeat!(c09_sorteduv_repeat_n1_s32, probe, 12, 1, 6, 16, 32);
c09_sorteduv_repeat!(c09_sorteduv_repeat_n3_s64, probe, 12, 3, 4, 16, 64);
c09_sorteduv_repeat!(c09_sorteduv_repeat_n3_s40, probe, 12, 3, 7, 20, 40);

/// Stub for `std::io::_eprint`: diagnostics on `zipora_verify!` failure paths (which then abort).
pub fn eprint_noop(_args: core::fmt::Arguments<'_>) {}

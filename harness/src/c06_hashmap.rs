//! C06 — hash maps behave as maps for every operation history and hasher.
//!
//! Cost notes (measured, see report): every field of a zipora struct that lives inside an enum
//! payload (`HashMapStorage::Standard{..}`, `SmallMapStorage::Small{..}`) is *not* constant for
//! CBMC's symbolic execution, so "impossible" branches (table full, promote to large, allocation
//! failure) are explored. Those branches drop a `ZiporaError` (drop glue of `io::Error` fans out over
//! every address-taken function) or build a whole second map. They are cut with *assert-unreachable*
//! stubs: the stub panics, so the solver proves that the branch is infeasible within the bound instead
//! of assuming it.
use crate::common::*;
use std::hash::{BuildHasher, Hasher};
use zipora::hash_map::{GoldHashMap, GoldHashMapConfig, ZiporaHashMap, ZiporaHashMapConfig};
use zipora::SmallMap;

// ------------------------------------------------------------------------------------------------
// generic helpers / stubs of this module

/// The hasher is a solver variable: `finish()` returns `H[key & 3]` for a table `H`.
#[derive(Clone, Copy)]
pub struct SymBuild {
    pub h: [u64; 4],
}
pub struct SymHasher {
    h: [u64; 4],
    k: u8,
}
impl Hasher for SymHasher {
    #[inline(always)]
    fn write(&mut self, b: &[u8]) {
        if !b.is_empty() {
            self.k = b[0];
        }
    }
    #[inline(always)]
    fn write_u8(&mut self, i: u8) {
        self.k = i;
    }
    #[inline(always)]
    fn finish(&self) -> u64 {
        self.h[(self.k & 3) as usize]
    }
}
impl BuildHasher for SymBuild {
    type Hasher = SymHasher;
    #[inline(always)]
    fn build_hasher(&self) -> SymHasher {
        SymHasher { h: self.h, k: 0 }
    }
}

/// `zipora::system::cpu_features::get_cpu_features`: no optional CPU feature (scalar tier); the real
/// detector runs CPUID / reads /proc behind a `OnceLock` and is not the subject.
pub fn cpu_features_scalar() -> &'static zipora::system::CpuFeatures {
    Box::leak(Box::new(zipora::system::CpuFeatures::new()))
}
/// `ZiporaHashMap::resize_storage` cut: a 16-slot table cannot be full after <= 4 inserts, so the
/// growth path is replaced by an assertion that it is unreachable (checked by the solver, not assumed).
pub fn resize_unreachable<K, V, S>(_m: &mut ZiporaHashMap<K, V, S>) -> zipora::Result<()>
where
    K: std::hash::Hash + Eq + Clone,
    V: Clone,
    S: BuildHasher,
{
    panic!("resize_storage reached although the table cannot be full within the bound");
}
/// `ZiporaError::invalid_state` cut: only built on "table full" / "storage type changed" paths, which
/// cannot happen within the bound; reaching it is an assertion failure. Without the cut the symbolic
/// `Err` discriminant makes CBMC explore the drop glue of `ZiporaError` inside `ZiporaHashMap::insert`.
pub fn invalid_state_unreachable<S: Into<String>>(_m: S) -> zipora::ZiporaError {
    panic!("ZiporaError::invalid_state reached although no error is possible within the bound");
}
/// `ZiporaError::out_of_memory` cut: allocation cannot fail in the model and no capacity overflows
/// within the bound; reaching it is an assertion failure (same reason as above).
pub fn out_of_memory_unreachable(_n: usize) -> zipora::ZiporaError {
    panic!("ZiporaError::out_of_memory reached although allocation cannot fail within the bound");
}
/// `ZiporaError::invalid_data` cut (SmallMap maps a large-map insert failure to it).
pub fn invalid_data_unreachable<S: Into<String>>(_m: S) -> zipora::ZiporaError {
    panic!("ZiporaError::invalid_data reached although no error is possible within the bound");
}
/// `ZiporaError::resource_exhausted` cut (GoldHashMap link-type overflow, impossible for < 2^32 entries).
pub fn resource_exhausted_unreachable<S: Into<String>>(_m: S) -> zipora::ZiporaError {
    panic!("ZiporaError::resource_exhausted reached although no error is possible within the bound");
}
/// `SmallMap::promote_to_large` cut: fewer than 8 distinct keys are ever inserted, so promotion (which
/// builds a whole `ZiporaHashMap<_, _, ahash::RandomState>`) must be unreachable; asserted, not assumed.
pub fn promote_unreachable<K, V>(_m: &mut SmallMap<K, V>) -> zipora::Result<()>
where
    K: PartialEq + std::hash::Hash + Eq + 'static + Clone,
    V: Clone,
{
    panic!("SmallMap::promote_to_large reached with fewer than 8 keys");
}
/// `ZiporaHashMap::{insert,len}` cuts (get/get_mut/remove have a method-level generic `Q` and Kani 0.68 refuses the stub) for the SmallMap harnesses: the map stays in
/// inline mode (promotion asserted unreachable), but the enum discriminant of `SmallMapStorage` is
/// niche-encoded and not constant for symbolic execution, so the `Large(map)` arms are explored; each
/// is replaced by an assertion that it is unreachable.
pub fn zhm_insert_unreachable<K, V, S>(_m: &mut ZiporaHashMap<K, V, S>, _k: K, _v: V) -> zipora::Result<Option<V>>
where
    K: std::hash::Hash + Eq + Clone,
    V: Clone,
    S: BuildHasher,
{
    panic!("large-map insert reached in inline mode");
}
pub fn zhm_len_unreachable<K, V, S>(_m: &ZiporaHashMap<K, V, S>) -> usize
where
    K: std::hash::Hash + Eq + Clone,
    V: Clone,
    S: BuildHasher,
{
    panic!("large-map len reached in inline mode");
}
/// `std::hash::RandomState::new`: fixed keys (the real one calls getrandom); only reached by the empty
/// `std::collections::HashMap` inside the string-optimised storage, which is never queried.
pub fn randomstate_fixed() -> std::hash::RandomState {
    // SAFETY: RandomState is a plain pair of u64 keys.
    unsafe { core::mem::transmute::<(u64, u64), std::hash::RandomState>((0, 0)) }
}
/// `std::io::_eprint`: diagnostics of `zipora_verify!` failure paths (which then abort).
pub fn eprint_noop(_a: core::fmt::Arguments<'_>) {}

/// array model of a map over the key space 0..4
#[derive(Clone, Copy)]
struct Model {
    present: [bool; 4],
    val: [u8; 4],
}
impl Model {
    fn new() -> Self {
        Model { present: [false; 4], val: [0; 4] }
    }
    fn get(&self, k: u8) -> Option<u8> {
        if self.present[k as usize] { Some(self.val[k as usize]) } else { None }
    }
    fn insert(&mut self, k: u8, v: u8) -> Option<u8> {
        let old = self.get(k);
        self.present[k as usize] = true;
        self.val[k as usize] = v;
        old
    }
    fn remove(&mut self, k: u8) -> Option<u8> {
        let old = self.get(k);
        self.present[k as usize] = false;
        old
    }
    fn len(&self) -> usize {
        let mut n = 0;
        let mut i = 0;
        while i < 4 {
            if self.present[i] {
                n += 1;
            }
            i += 1;
        }
        n
    }
}

// ------------------------------------------------------------------------------------------------
// ZiporaHashMap, non-default storage presets: insert-then-get (their insert_* are `Ok(None)` stubs)

fn preset_cfg(p: u8) -> ZiporaHashMapConfig {
    match p {
        0 => ZiporaHashMapConfig::cache_optimized(),
        1 => ZiporaHashMapConfig::string_optimized(),
        2 => ZiporaHashMapConfig::small_inline(4),
        _ => ZiporaHashMapConfig::default(),
    }
}

/// insert(k,v) then get/contains/len/iter — what any map must answer after one insertion.
fn zhm_insert_get<const PRESET: u8>() {
    let h: [u64; 4] = vany();
    let r = ZiporaHashMap::<u8, u8, SymBuild>::with_config_and_hasher(preset_cfg(PRESET), SymBuild { h });
    let mut m = match r {
        Ok(m) => m,
        Err(e) => {
            forget(e);
            panic!("constructor failed");
        }
    };
    let k: u8 = vany();
    assume(k < 4);
    let v: u8 = vany();
    let ir = m.insert(k, v);
    match &ir {
        Ok(p) => assert!(p.is_none(), "insert into an empty map reported a previous value"),
        Err(_) => panic!("insert into an empty map failed"),
    }
    forget(ir);
    assert!(m.get(&k) == Some(&v), "get(k) after insert(k,v) is not Some(v)");
    assert!(m.contains_key(&k), "contains_key(k) false after insert(k,v)");
    assert!(m.len() == 1, "len != 1 after one insert");
    let mut it = m.iter();
    let first = it.next();
    assert!(first == Some((&k, &v)), "iteration does not yield the inserted entry");
    zcover!(h[(k & 3) as usize] == 0, "key hashing to 0");
    zcover!(h[(k & 3) as usize] == u64::MAX, "key hashing to u64::MAX");
    zcover!(true, "end reached");
    forget(m);
}

macro_rules! c06_zhm_preset {
    ($name:ident, $tier:ident, $unwind:literal, $preset:expr) => {
        zv_harness! {
            name: $name,
            prop: "C06",
            tier: $tier,
            unwind: $unwind,
            stubs: [alloc::fmt::format => crate::common::stubs::fmt_format,
                    std::rt::thread_cleanup => crate::common::stubs::noop,
                    std::arch::x86_64::__cpuid_count => crate::common::stubs::cpuid_zero,
                    zipora::system::cpu_features::get_cpu_features => crate::c06_hashmap::cpu_features_scalar,
                    zipora::hash_map::zipora_hash_map::ZiporaHashMap::resize_storage => crate::c06_hashmap::resize_unreachable,
                    zipora::error::ZiporaError::invalid_state => crate::c06_hashmap::invalid_state_unreachable,
                    zipora::error::ZiporaError::out_of_memory => crate::c06_hashmap::out_of_memory_unreachable,
                    std::hash::RandomState::new => crate::c06_hashmap::randomstate_fixed,
                    std::io::_eprint => crate::c06_hashmap::eprint_noop],
            targets: "ZiporaHashMap::{with_config_and_hasher, insert, get, contains_key, len, iter} and the insert_*/get_* back end selected by the preset (ZiporaHashMapConfig::{cache_optimized, string_optimized, small_inline, default})",
            bounds: "one map of the preset given by the instance (0=cache_optimized 1=string_optimized 2=small_inline(4) 3=default), hasher = symbolic table H:[u64;4] (any hash value incl. 0 and u64::MAX), one symbolic key in 0..4, symbolic value; resize/error paths asserted unreachable",
            oracle: "insert into empty map returns Ok(None); then get(k)==Some(v), contains_key(k), len()==1, iter().next()==Some((k,v))",
            body: { zhm_insert_get::<{ $preset }>() }
        }
    };
}

c06_zhm_preset!(c06_zhm_cacheopt_insert_get, probe, 18, 0);
c06_zhm_preset!(c06_zhm_stringopt_insert_get, probe, 18, 1);
c06_zhm_preset!(c06_zhm_inline_insert_get, probe, 18, 2);
// default preset (Standard storage, 16 slots): one insert alone exhausts 9 GB (see report)
c06_zhm_preset!(c06_zhm_default_insert_get, probe, 18, 3);

// ------------------------------------------------------------------------------------------------
// ZiporaHashMap, default preset, concrete adversarial hash tables

/// History over keys {0,1} with a *concrete* hash table per instance: insert k0, insert k1,
/// remove k0, re-insert k1, then queries. `HK` selects the table.
fn zhm_std_tombstone<const HK: u8>() {
    let h: [u64; 4] = match HK {
        0 => [16, 32, 48, 64],             // all in slot 0, distinct non-sentinel hashes
        1 => [0, 16, 32, 48],              // key 0 hashes to the "empty" sentinel
        2 => [u64::MAX, 15, 31, 47],       // key 0 hashes to the "tombstone" sentinel, slot 15 (wraps)
        _ => [1, 2, 3, 4],                 // no collisions
    };
    let r = ZiporaHashMap::<u8, u8, SymBuild>::with_config_and_hasher(ZiporaHashMapConfig::default(), SymBuild { h });
    let mut m = match r {
        Ok(m) => m,
        Err(e) => {
            forget(e);
            panic!("constructor failed");
        }
    };
    let v0: u8 = vany();
    let v1: u8 = vany();
    let v2: u8 = vany();
    let a = m.insert(0, v0);
    match &a { Ok(p) => assert!(p.is_none()), Err(_) => panic!("insert failed") }
    forget(a);
    let b = m.insert(1, v1);
    match &b { Ok(p) => assert!(p.is_none()), Err(_) => panic!("insert failed") }
    forget(b);
    assert!(m.get(&0) == Some(&v0), "get(k0) after two inserts");
    assert!(m.remove(&0) == Some(v0), "remove(k0) does not return the stored value");
    let c = m.insert(1, v2);
    match &c { Ok(p) => assert!(*p == Some(v1), "re-insert of a live key did not return the previous value"), Err(_) => panic!("insert failed") }
    forget(c);
    assert!(m.get(&1) == Some(&v2), "get(k1) is not the last value inserted");
    assert!(m.get(&0).is_none(), "removed key still retrievable");
    assert!(m.len() == 1, "len is not the number of live keys");
    zcover!(true, "end reached");
    forget(m);
}

macro_rules! c06_zhm_std {
    ($name:ident, $tier:ident, $unwind:literal, $hk:expr) => {
        zv_harness! {
            name: $name,
            prop: "C06",
            tier: $tier,
            unwind: $unwind,
            stubs: [alloc::fmt::format => crate::common::stubs::fmt_format,
                    std::rt::thread_cleanup => crate::common::stubs::noop,
                    std::arch::x86_64::__cpuid_count => crate::common::stubs::cpuid_zero,
                    zipora::system::cpu_features::get_cpu_features => crate::c06_hashmap::cpu_features_scalar,
                    zipora::hash_map::zipora_hash_map::ZiporaHashMap::resize_storage => crate::c06_hashmap::resize_unreachable,
                    zipora::error::ZiporaError::invalid_state => crate::c06_hashmap::invalid_state_unreachable,
                    zipora::error::ZiporaError::out_of_memory => crate::c06_hashmap::out_of_memory_unreachable,
                    std::io::_eprint => crate::c06_hashmap::eprint_noop],
            targets: "ZiporaHashMap (default preset, Standard storage): insert_standard, get_standard, remove_standard (tombstone), len",
            bounds: "16-slot table, CONCRETE hash table per instance (0: all keys in slot 0; 1: key 0 hashes to 0; 2: key 0 hashes to u64::MAX; 3: no collision), fixed history insert(0),insert(1),get(0),remove(0),insert(1),get(1),get(0),len with symbolic values",
            oracle: "array model: previous value returned iff key present, get = last value, removed key absent, len = live keys",
            body: { zhm_std_tombstone::<{ $hk }>() }
        }
    };
}

c06_zhm_std!(c06_zhm_std_collide_tombstone, probe, 18, 0);
c06_zhm_std!(c06_zhm_std_hash_zero, probe, 18, 1);
c06_zhm_std!(c06_zhm_std_hash_max, probe, 18, 2);
c06_zhm_std!(c06_zhm_std_nocollide, probe, 18, 3);

// ------------------------------------------------------------------------------------------------
// GoldHashMap: symbolic operation history, concrete keys per call site (zero-keyed SipHash => the
// hash of a constant key is a constant), keys 4, 8, 13 share one bucket for 5 and for 7 buckets.

#[inline(always)]
fn gold_step(m: &mut GoldHashMap<u8, u8>, md: &mut Model, ki: usize, key: u8, op: u8, v: u8) {
    match op {
        0 => {
            let r = m.insert(key, v);
            let exp = md.insert(ki as u8, v);
            match &r { Ok(p) => assert!(*p == exp, "insert: previous value mismatch"), Err(_) => panic!("insert failed") }
            forget(r);
        }
        1 => {
            let r = m.remove(&key);
            let exp = md.remove(ki as u8);
            match &r { Ok(p) => assert!(*p == exp, "remove: returned value mismatch"), Err(_) => panic!("remove failed") }
            forget(r);
        }
        2 => {
            let exp = md.get(ki as u8);
            assert!(m.get(&key).copied() == exp, "get mismatch");
        }
        _ => {
            let exp = md.get(ki as u8);
            match m.get_mut(&key) {
                Some(p) => {
                    assert!(exp == Some(*p), "get_mut mismatch");
                    *p = v;
                    md.val[ki] = v;
                }
                None => assert!(exp.is_none(), "get_mut: live key not found"),
            }
        }
    }
}

fn gold_hist<const N: usize, const CACHE: bool, const GC: bool, const REUSE: bool>() {
    let mut cfg = GoldHashMapConfig::default();
    cfg.initial_capacity = 5; // 5 buckets, max_load 3 => an insert at 3 live keys rehashes to 7 buckets
    cfg.enable_hash_cache = CACHE;
    cfg.enable_auto_gc = GC;
    cfg.enable_freelist_reuse = REUSE;
    let mut m: GoldHashMap<u8, u8> = GoldHashMap::with_config(cfg);
    let mut md = Model::new();
    let mut removed = false;
    let mut reinserted = false;
    let mut s = 0;
    while s < N {
        let op: u8 = vany();
        let ki: u8 = vany();
        let v: u8 = vany();
        assume(op < 4 && ki < 3);
        if op == 0 && removed && !md.present[ki as usize] {
            reinserted = true;
        }
        if op == 1 && md.present[ki as usize] {
            removed = true;
        }
        let key: u8 = if ki == 0 { 4 } else if ki == 1 { 8 } else { 13 };
        gold_step(&mut m, &mut md, ki as usize, key, op, v);
        assert!(m.len() == md.len(), "len is not the number of live keys");
        s += 1;
    }
    // final: every key answers like the model; iteration yields each live entry exactly once
    let qi: u8 = vany();
    assume(qi < 3);
    let q: u8 = if qi == 0 { 4 } else if qi == 1 { 8 } else { 13 };
    assert!(m.get(&q).copied() == md.get(qi), "final get mismatch");
    let mut seen = [0u8; 3];
    let mut total = 0usize;
    for (k, v) in m.iter() {
        let i = if *k == 4 { 0 } else if *k == 8 { 1 } else if *k == 13 { 2 } else { 3 };
        assert!(i < 3, "iteration yields a key that was never inserted");
        assert!(md.get(i as u8) == Some(*v), "iteration yields a dead entry or a stale value");
        seen[i] += 1;
        total += 1;
    }
    assert!(total == md.len(), "iteration count != number of live keys");
    assert!(seen[0] <= 1 && seen[1] <= 1 && seen[2] <= 1, "iteration yields an entry twice");
    zcover!(removed, "a live key was removed");
    zcover!(N < 3 || reinserted, "insert after a removal (free-list path)");
    zcover!(md.len() >= 2, "two colliding keys live at the end");
    forget(m);
}

macro_rules! c06_gold {
    ($name:ident, $tier:ident, $unwind:literal, $n:literal, $cache:literal, $gc:literal, $reuse:literal) => {
        zv_harness! {
            name: $name,
            prop: "C06",
            tier: $tier,
            unwind: $unwind,
            stubs: [alloc::fmt::format => crate::common::stubs::fmt_format,
                    zipora::error::ZiporaError::resource_exhausted => crate::c06_hashmap::resource_exhausted_unreachable],
            targets: "GoldHashMap<u8,u8,u32>::{with_config, insert, remove, get, get_mut, len, iter} incl. allocate_slot/free_slot (free list), revoke_deleted+relink (auto GC), hash cache",
            bounds: "5 buckets; N symbolic operations (instance arg 1) from {insert, remove, get, get_mut+write} x a symbolic key from {4,8,13} (these share one bucket: zero-keyed SipHash, 5 and 7 buckets) with symbolic values; instance args 2..4 = hash cache, auto GC, free-list reuse",
            oracle: "array model after every step: insert returns previous value iff present, remove returns value iff present, get/get_mut = last value, len = live keys; finally iteration yields each live entry exactly once and nothing else",
            body: { gold_hist::<$n, $cache, $gc, $reuse>() }
        }
    };
}

// measured: even 2 operations exhaust 9 GB in CBMC's post-processing (symex 25 s, 26k VCCs) => thorough only
c06_gold!(c06_gold_hist2, probe, 8, 2, false, false, true);
c06_gold!(c06_gold_hist3, probe, 8, 3, false, false, true);
c06_gold!(c06_gold_hist3_cache_gc, probe, 8, 3, true, true, true);
c06_gold!(c06_gold_hist4, probe, 8, 4, false, false, true);
c06_gold!(c06_gold_hist4_gc, probe, 8, 4, false, true, true);
c06_gold!(c06_gold_hist4_noreuse, probe, 8, 4, false, false, false);

// ------------------------------------------------------------------------------------------------
// SmallMap (inline mode): fully symbolic history, symbolic keys (no hashing below the threshold)

fn smallmap_hist<const N: usize, const OPS: u8>() {
    smallmap_hist_pre::<N, OPS>(0)
}

/// `pre` concrete-key inserts (keys 0..pre, symbolic values) build the starting state, then N symbolic operations.
fn smallmap_hist_pre<const N: usize, const OPS: u8>(pre: u8) {
    let mut m: SmallMap<u8, u8> = SmallMap::new();
    let mut md = Model::new();
    let mut removed_mid = false;
    let mut p = 0u8;
    while p < pre {
        let v: u8 = vany();
        let r = m.insert(p, v);
        let exp = md.insert(p, v);
        match &r { Ok(prev) => assert!(*prev == exp, "insert: previous value mismatch"), Err(_) => panic!("insert failed") }
        forget(r);
        p += 1;
    }
    let mut s = 0;
    while s < N {
        let op: u8 = vany();
        let k: u8 = vany();
        let v: u8 = vany();
        assume(op < OPS && k < 4);
        match op {
            0 => {
                let r = m.insert(k, v);
                let exp = md.insert(k, v);
                match &r { Ok(p) => assert!(*p == exp, "insert: previous value mismatch"), Err(_) => panic!("insert failed") }
                forget(r);
            }
            1 => {
                if md.present[k as usize] && md.len() >= 2 {
                    removed_mid = true;
                }
                let r = m.remove(&k);
                assert!(r == md.remove(k), "remove: returned value mismatch");
            }
            2 => assert!(m.get(&k).copied() == md.get(k), "get mismatch"),
            3 => {
                let exp = md.get(k);
                match m.get_mut(&k) {
                    Some(p) => {
                        assert!(exp == Some(*p), "get_mut mismatch");
                        *p = v;
                        md.val[k as usize] = v;
                    }
                    None => assert!(exp.is_none(), "get_mut: live key not found"),
                }
            }
            4 => assert!(m.contains_key(&k) == md.present[k as usize], "contains_key mismatch"),
            _ => {
                // compiled out unless the instance enables clear(): `assume` does not prune symex
                if OPS == 6 {
                    m.clear();
                    md = Model::new();
                }
            }
        }
        assert!(m.len() == md.len(), "len is not the number of live keys");
        s += 1;
    }
    let q: u8 = vany();
    assume(q < 4);
    assert!(m.get(&q).copied() == md.get(q), "final get mismatch");
    let mut seen_q = 0u8;
    let mut total = 0usize;
    for (k, v) in m.iter() {
        assert!(*k < 4 && md.get(*k) == Some(*v), "iteration yields a dead entry or a stale value");
        if *k == q {
            seen_q += 1;
        }
        total += 1;
    }
    assert!(total == md.len(), "iteration count != number of live keys");
    assert!(seen_q == if md.present[q as usize] { 1 } else { 0 }, "iteration misses or repeats a live key");
    // (covers are not put inside `if N >= 3`: a monomorphised dead branch would report them unsatisfiable)
    zcover!((N < 3 && pre < 2) || removed_mid, "removal with swap-from-last reachable");
    zcover!(md.len() >= 2, "two live keys at the end");
    forget(m);
}

macro_rules! c06_smallmap {
    ($name:ident, $tier:ident, $unwind:literal, $n:literal, $ops:literal) => {
        zv_harness! {
            name: $name,
            prop: "C06",
            tier: $tier,
            unwind: $unwind,
            stubs: [alloc::fmt::format => crate::common::stubs::fmt_format,
                    std::rt::thread_cleanup => crate::common::stubs::noop,
                    zipora::containers::specialized::small_map::SmallMap::promote_to_large => crate::c06_hashmap::promote_unreachable,
                    zipora::hash_map::zipora_hash_map::ZiporaHashMap::insert => crate::c06_hashmap::zhm_insert_unreachable,
                    zipora::hash_map::zipora_hash_map::ZiporaHashMap::len => crate::c06_hashmap::zhm_len_unreachable,
                    zipora::error::ZiporaError::invalid_data => crate::c06_hashmap::invalid_data_unreachable],
            targets: "SmallMap<u8,u8> inline storage: insert, remove (swap with last), get (find_key_index unrolled search), get_mut, contains_key, clear, len, iter",
            bounds: "N symbolic operations (instance arg) from {insert, remove, get, get_mut+write, contains_key[, clear when instance arg 2 = 6]} with symbolic keys in 0..4 and symbolic values; at most 4 entries, so promotion to the large map is asserted unreachable",
            oracle: "array model after every step (returned previous/removed value, get, contains, len) and at the end get(q) for a symbolic q plus iteration yields each live entry exactly once and nothing else",
            body: { smallmap_hist::<$n, $ops>() }
        }
    };
}

// last arg: number of op kinds; 5 = without clear() (clear on the never-taken Large arm assigns the
// storage and so pulls in the drop glue of ZiporaHashMap<_,_,ahash::RandomState>), 6 = with clear()
macro_rules! c06_smallmap_pre {
    ($name:ident, $tier:ident, $unwind:literal, $pre:literal, $n:literal, $ops:literal) => {
        zv_harness! {
            name: $name,
            prop: "C06",
            tier: $tier,
            unwind: $unwind,
            stubs: [alloc::fmt::format => crate::common::stubs::fmt_format,
                    std::rt::thread_cleanup => crate::common::stubs::noop,
                    zipora::containers::specialized::small_map::SmallMap::promote_to_large => crate::c06_hashmap::promote_unreachable,
                    zipora::hash_map::zipora_hash_map::ZiporaHashMap::insert => crate::c06_hashmap::zhm_insert_unreachable,
                    zipora::hash_map::zipora_hash_map::ZiporaHashMap::len => crate::c06_hashmap::zhm_len_unreachable,
                    zipora::error::ZiporaError::invalid_data => crate::c06_hashmap::invalid_data_unreachable],
            targets: "SmallMap<u8,u8> inline storage: insert, remove (swap with last), get (find_key_index unrolled search), get_mut, contains_key, len, iter, starting from a map that already holds PRE entries",
            bounds: "PRE inserts of the concrete keys 0..PRE with symbolic values (instance arg 1), then N symbolic operations (arg 2) from {insert, remove, get, get_mut+write, contains_key} with symbolic keys in 0..4 and symbolic values; at most 4 entries, so promotion to the large map is asserted unreachable",
            oracle: "array model after every step (returned previous/removed value, get, contains, len) and at the end get(q) for a symbolic q plus iteration yields each live entry exactly once and nothing else",
            body: { smallmap_hist_pre::<$n, $ops>($pre) }
        }
    };
}
c06_smallmap_pre!(c06_smallmap_pre3_op1, quick, 10, 3, 1, 5);
c06_smallmap_pre!(c06_smallmap_pre2_op1, quick, 10, 2, 1, 5);
c06_smallmap_pre!(c06_smallmap_pre3_op2, thorough, 10, 3, 2, 5);
c06_smallmap!(c06_smallmap_hist2, quick, 10, 2, 5);
// measured: 3 ops = 3.9M vars / 28M clauses, solver out of memory at 9 GB => thorough
c06_smallmap!(c06_smallmap_hist3, thorough, 10, 3, 5);
c06_smallmap!(c06_smallmap_hist4, probe, 10, 4, 5);
c06_smallmap!(c06_smallmap_hist6, probe, 10, 6, 5);
c06_smallmap!(c06_smallmap_hist3_clear, probe, 10, 3, 6);

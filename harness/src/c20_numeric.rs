//! C20 (numeric comparators) — decimal_strcmp / realnum_strcmp order strings by numeric value.
use crate::common::*;
use std::cmp::Ordering;
use zipora::string::{decimal_strcmp, decimal_strcmp_with_sign, realnum_strcmp, realnum_strcmp_with_sign};

/// Symbolic ASCII string of concrete length N over bytes < 0x80 (so it is valid UTF-8).
fn sym_ascii<const N: usize>() -> [u8; N] {
    let a: [u8; N] = vany();
    let mut i = 0;
    while i < N {
        assume(a[i] < 0x80);
        i += 1;
    }
    a
}

/// Reference: parse `[sign] digits [. digits]` (at most one dot, at least one digit, sign needs a
/// rest) into value * 1000 for strings of at most 4 bytes. Returns (valid, has_digit, scaled value).
fn ref_real(s: &[u8], allow_dot: bool) -> (bool, bool, i64) {
    let mut i = 0;
    let mut neg = false;
    if s.is_empty() {
        return (false, false, 0);
    }
    if s[0] == b'+' || s[0] == b'-' {
        neg = s[0] == b'-';
        i = 1;
        if s.len() == 1 {
            return (false, false, 0);
        }
    }
    let mut int: i64 = 0;
    let mut frac: i64 = 0;
    let mut fscale: i64 = 1000;
    let mut seen_dot = false;
    let mut has_digit = false;
    while i < s.len() {
        let c = s[i];
        if c == b'.' {
            if seen_dot || !allow_dot {
                return (false, false, 0);
            }
            seen_dot = true;
        } else if c >= b'0' && c <= b'9' {
            has_digit = true;
            let d = (c - b'0') as i64;
            if seen_dot {
                fscale /= 10;
                frac += d * fscale;
            } else {
                int = int * 10 + d;
            }
        } else {
            return (false, false, 0);
        }
        i += 1;
    }
    let v = int * 1000 + frac;
    (true, has_digit, if neg { -v } else { v })
}

fn numeric_pair<const LA: usize, const LB: usize>(real: bool) {
    let a = sym_ascii::<LA>();
    let b = sym_ascii::<LB>();
    let (va, da, xa) = ref_real(&a, real);
    let (vb, db, xb) = ref_real(&b, real);
    // a digit-free "number" such as "." or "+." is outside the claim (validity is ambiguous)
    assume((!va || da) && (!vb || db));
    #[cfg(feature = "kf_c20_numeric")]
    assume(!crate::kf::c20_numeric_region(&a, &b, real));
    let sa = unsafe { core::str::from_utf8_unchecked(&a) };
    let sb = unsafe { core::str::from_utf8_unchecked(&b) };
    let got = if real { realnum_strcmp(sa, sb) } else { decimal_strcmp(sa, sb) };
    if va && vb {
        assert!(got == Some(xa.cmp(&xb)), "numeric comparator disagrees with numeric value order");
        zcover!(xa == xb && a[0] != b[0], "opt: equal values with different spelling");
    } else {
        assert!(got.is_none(), "invalid numeric string not rejected");
    }
    zcover!(va && vb, "both valid");
    zcover!(!(va && vb), "one invalid");
}

/// Core comparison on sign-free, already validated digit strings (the documented precondition of
/// the `*_with_sign` entry points): whole arrays, so every slice has a concrete base and length.
fn numeric_ws<const LA: usize, const LB: usize>(real: bool) {
    let a = sym_ascii::<LA>();
    let b = sym_ascii::<LB>();
    let (va, da, xa) = ref_real(&a, real);
    let (vb, db, xb) = ref_real(&b, real);
    assume(va && vb && da && db);
    assume(a[0] != b'+' && a[0] != b'-' && b[0] != b'+' && b[0] != b'-');
    let an: bool = vany();
    let bn: bool = vany();
    let sa = unsafe { core::str::from_utf8_unchecked(&a) };
    let sb = unsafe { core::str::from_utf8_unchecked(&b) };
    let got = if real { realnum_strcmp_with_sign(sa, an, sb, bn) } else { decimal_strcmp_with_sign(sa, an, sb, bn) };
    let ya = if an { -xa } else { xa };
    let yb = if bn { -xb } else { xb };
    assert!(got == ya.cmp(&yb), "numeric comparator disagrees with numeric value order");
    zcover!(ya == yb && a[0] != b[0], "opt: equal values with different spelling");
    zcover!(ya == 0 && yb == 0 && an != bn, "opt: zero with both signs");
    zcover!(ya < yb, "less reached");
}

macro_rules! c20_numeric_ws {
    ($name:ident, $tier:ident, $unwind:literal, $la:literal, $lb:literal, $real:literal) => {
        zv_harness! {
            name: $name,
            prop: "C20",
            tier: $tier,
            unwind: $unwind,
            stubs: [alloc::fmt::format => crate::common::stubs::fmt_format],
            targets: "string::numeric_compare::{realnum_strcmp_with_sign | decimal_strcmp_with_sign} (+ compare_decimal_magnitude, is_zero_magnitude, split_at_dot); last instance arg: true = realnum, false = decimal",
            bounds: "two symbolic sign-free digit strings (realnum: at most one '.', >= 1 digit) of the concrete lengths given by the instance, symbolic sign flags",
            oracle: "result == order of the exact signed values (scaled by 1000); -0 == +0",
            body: { numeric_ws::<$la, $lb>($real) }
        }
    };
}
c20_numeric_ws!(c20_realnum_ws_2x2, quick, 8, 2, 2, true);
c20_numeric_ws!(c20_realnum_ws_3x2, quick, 8, 3, 2, true);
c20_numeric_ws!(c20_realnum_ws_3x3, thorough, 8, 3, 3, true);
c20_numeric_ws!(c20_realnum_ws_4x3, thorough, 8, 4, 3, true);
c20_numeric_ws!(c20_decimal_ws_2x2, quick, 8, 2, 2, false);
c20_numeric_ws!(c20_decimal_ws_3x2, quick, 8, 3, 2, false);
c20_numeric_ws!(c20_decimal_ws_4x4, thorough, 8, 4, 4, false);

macro_rules! c20_realnum_pair {
    ($name:ident, $tier:ident, $unwind:literal, $la:literal, $lb:literal) => {
        zv_harness! {
            name: $name,
            prop: "C20",
            tier: $tier,
            unwind: $unwind,
            stubs: [alloc::fmt::format => crate::common::stubs::fmt_format],
            targets: "string::numeric_compare::realnum_strcmp (+ realnum_strcmp_with_sign, parse_sign, validate_realnum)",
            bounds: "two symbolic ASCII strings of the concrete lengths given by the instance (<= 4 bytes each), every byte value < 0x80",
            oracle: "Some(order of exact values scaled by 1000) when both are [sign]digits[.digits] with >= 1 digit; None when either is malformed; digit-free strings excluded",
            body: { numeric_pair::<$la, $lb>(true) }
        }
    };
}
macro_rules! c20_decimal_pair {
    ($name:ident, $tier:ident, $unwind:literal, $la:literal, $lb:literal) => {
        zv_harness! {
            name: $name,
            prop: "C20",
            tier: $tier,
            unwind: $unwind,
            stubs: [alloc::fmt::format => crate::common::stubs::fmt_format],
            targets: "string::numeric_compare::decimal_strcmp (+ decimal_strcmp_with_sign, compare_decimal_magnitude, parse_sign)",
            bounds: "two symbolic ASCII strings of the concrete lengths given by the instance (<= 4 bytes each), every byte value < 0x80",
            oracle: "Some(order of exact integer values) when both are [sign]digits; None when either is malformed",
            body: { numeric_pair::<$la, $lb>(false) }
        }
    };
}

c20_realnum_pair!(c20_realnum_pair_1x1, thorough, 8, 1, 1);
c20_realnum_pair!(c20_realnum_pair_2x1, thorough, 8, 2, 1);
c20_realnum_pair!(c20_realnum_pair_2x2, thorough, 8, 2, 2);
c20_decimal_pair!(c20_decimal_pair_1x1, quick, 8, 1, 1);
c20_decimal_pair!(c20_decimal_pair_2x2, quick, 8, 2, 2);
c20_decimal_pair!(c20_decimal_pair_3x2, thorough, 8, 3, 2);

/// Long operands at the machine-word boundaries: a concrete digit prefix (instance) followed by
/// TAIL symbolic digits, compared with a second operand built the same way. Values are compared
/// through a 128-bit reference (at most 38 digits).
fn decimal_boundary<const TA: usize, const TB: usize>(pa: &[u8], pb: &[u8]) {
    let ta = sym_ascii::<TA>();
    let tb = sym_ascii::<TB>();
    let mut a = [0u8; 24];
    let mut b = [0u8; 24];
    let (la, lb) = (pa.len() + TA, pb.len() + TB);
    let mut i = 0;
    while i < pa.len() { a[i] = pa[i]; i += 1; }
    i = 0;
    while i < TA { assume(ta[i] >= b'0' && ta[i] <= b'9'); a[pa.len() + i] = ta[i]; i += 1; }
    i = 0;
    while i < pb.len() { b[i] = pb[i]; i += 1; }
    i = 0;
    while i < TB { assume(tb[i] >= b'0' && tb[i] <= b'9'); b[pb.len() + i] = tb[i]; i += 1; }
    let mut xa: u128 = 0;
    let mut xb: u128 = 0;
    i = 0;
    while i < la { xa = xa * 10 + (a[i] - b'0') as u128; i += 1; }
    i = 0;
    while i < lb { xb = xb * 10 + (b[i] - b'0') as u128; i += 1; }
    let an: bool = vany();
    let bn: bool = vany();
    let sa = unsafe { core::str::from_utf8_unchecked(&a[..la]) };
    let sb = unsafe { core::str::from_utf8_unchecked(&b[..lb]) };
    let got = decimal_strcmp_with_sign(sa, an, sb, bn);
    let want = match (an && xa != 0, bn && xb != 0) {
        (true, false) => Ordering::Less,
        (false, true) => Ordering::Greater,
        (false, false) => xa.cmp(&xb),
        (true, true) => xb.cmp(&xa),
    };
    assert!(got == want, "numeric comparator disagrees with numeric value order");
    let got_real = realnum_strcmp_with_sign(sa, an, sb, bn);
    assert!(got_real == want, "real-number comparator disagrees on integer operands");
    zcover!(xa > u64::MAX as u128, "opt: operand above u64::MAX");
    zcover!(want == Ordering::Less, "less reached");
}
macro_rules! c20_decimal_boundary {
    ($name:ident, $tier:ident, $unwind:literal, $ta:literal, $tb:literal, $pa:expr, $pb:expr) => {
        zv_harness! {
            name: $name,
            prop: "C20",
            tier: $tier,
            unwind: $unwind,
            stubs: [alloc::fmt::format => crate::common::stubs::fmt_format],
            targets: "string::numeric_compare::{decimal_strcmp_with_sign, realnum_strcmp_with_sign, compare_decimal_magnitude}",
            bounds: "operand A = concrete digit prefix of the instance + TA symbolic digits, operand B likewise (prefix may be empty); prefixes sit at the u32/u64 boundaries (4294967295 / 18446744073709551615); symbolic sign flags",
            oracle: "result == order of the exact values (128-bit reference), -0 == +0",
            body: { decimal_boundary::<$ta, $tb>($pa, $pb) }
        }
    };
}
c20_decimal_boundary!(c20_decimal_u64max_20x1, quick, 26, 2, 1, b"184467440737095516", b"");
c20_decimal_boundary!(c20_decimal_u64max_20x20, quick, 26, 1, 1, b"1844674407370955161", b"1844674407370955161");
c20_decimal_boundary!(c20_decimal_u32max_10x2, thorough, 26, 2, 2, b"42949672", b"");
c20_decimal_boundary!(c20_decimal_21x20, thorough, 26, 2, 2, b"1844674407370955161", b"184467440737095516");

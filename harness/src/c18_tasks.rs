//! C18 — every submitted task runs exactly once (work-stealing queues and executor dispatch).
//! The tokio worker loop itself is outside the reach of Kani; what is checked is everything a
//! worker does to obtain a task: the real `submit`, `find_task`, `steal`, `balance`, `push_local`,
//! `pop_local`, played by the harness as a solver-chosen schedule of worker steps.
use crate::common::*;
use std::future::Future;
use std::pin::Pin;
use zipora::concurrency::work_stealing::verif_access::{balance_for, find_task_for, new_threadless, queue_of};
use zipora::concurrency::work_stealing::{Task, WorkStealingExecutor, WorkStealingQueue};
use zipora::error::Result as ZResult;

/// A task is identified by `id`; priority / stealable are symbolic per task.
struct IdTask {
    id: u8,
    prio: u8,
    stealable: bool,
}
impl Task for IdTask {
    fn execute(self: Box<Self>) -> Pin<Box<dyn Future<Output = ZResult<()>> + Send>> {
        // never called: the harness identifies the obtained task through priority()/is_stealable()
        panic!("not executed in the harness")
    }
    fn priority(&self) -> u8 {
        self.prio
    }
    fn is_stealable(&self) -> bool {
        self.stealable
    }
}

/// Task identity is carried in the priority's low 2 bits (prio = class*4 + id), so the harness can
/// tell which task it got back without downcasting.
fn mk(id: u8, class: u8, stealable: bool) -> Box<dyn Task> {
    Box::new(IdTask { id, prio: class * 4 + id, stealable })
}
fn id_of(t: &Box<dyn Task>) -> usize {
    (t.priority() & 3) as usize
}

/// One queue: symbolic op sequence; multiset(returned + still queued) == pushed, nothing twice.
fn queue_conservation<const OPS: usize>() {
    let q = WorkStealingQueue::new(0, 3);
    let mut pushed = [false; 4];
    let mut got = [0u8; 4];
    let mut next_id = 0u8;
    let mut step = 0;
    while step < OPS {
        let op: u8 = vany();
        assume(op < 4);
        match op {
            0 => {
                if next_id < 4 {
                    let class: u8 = vany();
                    assume(class < 2);
                    let st: bool = vany();
                    let before = q.len();
                    let r = q.push_local(mk(next_id, class, st));
                    match &r {
                        Ok(()) => {
                            pushed[next_id as usize] = true;
                            assert!(q.len() == before + 1);
                        }
                        Err(_) => {
                            // refused only when the local queue is full; the task is not accepted
                            assert!(before >= 3, "push refused although there was room");
                        }
                    }
                    forget(r);
                    next_id += 1;
                }
            }
            1 => {
                if let Some(t) = q.pop_local() {
                    got[id_of(&t)] += 1;
                    forget(t);
                }
            }
            2 => {
                if let Some(t) = q.steal() {
                    got[id_of(&t)] += 1;
                    forget(t);
                }
            }
            _ => q.balance(),
        }
        step += 1;
    }
    // drain: everything still queued must be obtainable through pop_local / steal-queue pops
    let remaining = q.len();
    let mut drained = 0;
    let mut guard = 0;
    while guard < 5 {
        let t = match q.pop_local() {
            Some(t) => Some(t),
            None => q.steal(),
        };
        match t {
            Some(t) => {
                got[id_of(&t)] += 1;
                drained += 1;
                forget(t);
            }
            None => break,
        }
        guard += 1;
    }
    assert!(drained == remaining, "len() disagrees with what can be taken out");
    assert!(q.is_empty());
    let mut i = 0;
    while i < 4 {
        assert!(got[i] == if pushed[i] { 1 } else { 0 }, "a task was lost, duplicated or invented");
        i += 1;
    }
    zcover!(next_id >= 3, "three pushes happened");
    zcover!(remaining > 0, "something was left to drain");
    forget(q);
}

macro_rules! c18_queue {
    ($name:ident, $tier:ident, $unwind:literal, $ops:literal) => {
        zv_harness! {
            name: $name,
            prop: "C18",
            tier: $tier,
            unwind: $unwind,
            stubs: [alloc::fmt::format => crate::common::stubs::fmt_format],
            targets: "concurrency::work_stealing::WorkStealingQueue::{push_local, pop_local, steal, balance, len, is_empty}",
            bounds: "one queue of capacity 3; OPS (instance arg) symbolic operations from {push_local of a new task with symbolic priority class 0..1 and stealable flag, pop_local, steal, balance}; at most 4 tasks; each queue operation is atomic (holds its mutexes for its whole body)",
            oracle: "every accepted task is obtained exactly once over the run plus a final drain; len() equals the number of tasks that can still be taken out; a push is refused only when the local queue is full",
            body: { queue_conservation::<$ops>() }
        }
    };
}
c18_queue!(c18_queue_ops2, probe, 6, 2);
c18_queue!(c18_queue_ops3, probe, 7, 3);
c18_queue!(c18_queue_ops4, probe, 8, 4);

/// Executor with W workers (no tokio): N tasks with symbolic priority class / stealable flag go
/// through the real `submit`; then a concrete schedule skeleton of worker steps (instance), then a
/// drain in which every worker calls the real `find_task` until it returns None. Every accepted
/// task must have been obtained exactly once and nothing may stay queued.
/// Skeleton digits: b<w> = worker w runs balance, f<w> = worker w runs find_task once.
fn reachability<const W: usize, const N: usize>(skeleton: &[(u8, usize)]) {
    let ex = new_threadless(W, 4);
    let mut accepted = [false; 4];
    let mut got = [0u8; 4];
    let mut i = 0;
    while i < N {
        // concrete priority class (alternating), symbolic stealable flag - see queue_script
        let class: u8 = (i % 2) as u8;
        let st: bool = vany();
        let r = ex.submit(mk(i as u8, class, st));
        accepted[i] = r.is_ok();
        forget(r);
        i += 1;
    }
    let mut s = 0;
    while s < skeleton.len() {
        let (kind, w) = skeleton[s];
        if kind == 0 {
            balance_for(&ex, w);
        } else if let Some(t) = find_task_for(&ex, w) {
            got[id_of(&t)] += 1;
            forget(t);
        }
        s += 1;
    }
    let left = ex.total_queued();
    // drain: all workers keep asking for work until nobody finds any
    let mut round = 0;
    while round < N {
        let mut w = 0;
        while w < W {
            if let Some(t) = find_task_for(&ex, w) {
                got[id_of(&t)] += 1;
                forget(t);
            }
            w += 1;
        }
        round += 1;
    }
    let mut i = 0;
    while i < 4 {
        assert!(got[i] <= 1, "a task was obtained twice");
        assert!(got[i] == if i < N && accepted[i] { 1 } else { 0 }, "an accepted task can no longer be reached by any worker (lost task)");
        i += 1;
    }
    assert!(ex.total_queued() == 0, "executor is not idle after all workers drained");
    assert!(ex.is_idle());
    zcover!(left > 0, "tasks were still queued when the drain started");
    forget(ex);
}

macro_rules! c18_reach {
    ($name:ident, $tier:ident, $unwind:literal, $w:literal, $n:literal, $skel:expr) => {
        zv_harness! {
            name: $name,
            prop: "C18",
            tier: $tier,
            unwind: $unwind,
            stubs: [alloc::fmt::format => crate::common::stubs::fmt_format],
            targets: "concurrency::work_stealing::WorkStealingExecutor::{submit, find_task, total_queued, is_idle}, WorkStealingQueue::{push_local, pop_local, steal, balance} (executor built without tokio workers through verif_access::new_threadless)",
            bounds: "W workers (1st instance arg), queue capacity 4; N tasks (2nd arg) with alternating priority class 0/1 and symbolic stealable flag submitted through submit(); then the concrete worker-step skeleton of the instance ((0,w) = worker w balance, (1,w) = worker w find_task); then every worker calls find_task for N rounds",
            oracle: "each accepted task is obtained exactly once; afterwards total_queued() == 0 and is_idle()",
            body: { reachability::<$w, $n>(&$skel) }
        }
    };
}
c18_reach!(c18_reach_w1_n2_bal, probe, 6, 1, 2, [(0u8, 0usize)]);
c18_reach!(c18_reach_w1_n3_bal, probe, 6, 1, 3, [(0u8, 0usize)]);
c18_reach!(c18_reach_w2_n3_bal_steal, probe, 6, 2, 3, [(0u8, 0usize), (1, 1), (1, 1)]);
c18_reach!(c18_reach_w2_n4_mix, probe, 7, 2, 4, [(0u8, 0usize), (1, 1), (0, 1), (1, 0)]);
c18_reach!(c18_reach_w3_n4_mix, probe, 7, 3, 4, [(0u8, 0usize), (0, 1), (1, 2), (1, 2)]);

/// One queue, concrete operation script (instance), symbolic task attributes.
/// Script codes: 0 = push_local(new task), 1 = pop_local, 2 = steal, 3 = balance.
fn queue_script(script: &[u8], cap: usize) {
    let q = WorkStealingQueue::new(0, cap);
    let mut pushed = [false; 4];
    let mut got = [0u8; 4];
    let mut next_id = 0u8;
    let mut step = 0;
    while step < script.len() {
        match script[step] {
            0 | 4 => {
                // priority class is concrete per script (a symbolic insert position in the VecDeque
                // costs tens of millions of clauses); the stealable flag stays symbolic
                let class: u8 = if script[step] == 4 { 1 } else { 0 };
                let st: bool = vany();
                let before = q.len();
                let r = q.push_local(mk(next_id, class, st));
                match &r {
                    Ok(()) => { pushed[next_id as usize] = true; assert!(q.len() == before + 1); }
                    Err(_) => { assert!(before >= cap, "push refused although there was room"); }
                }
                forget(r);
                next_id += 1;
            }
            1 => { if let Some(t) = q.pop_local() { got[id_of(&t)] += 1; forget(t); } }
            2 => { if let Some(t) = q.steal() { got[id_of(&t)] += 1; forget(t); } }
            _ => q.balance(),
        }
        step += 1;
    }
    let remaining = q.len();
    let mut drained = 0;
    let mut guard = 0;
    while guard < 4 {
        let t = match q.pop_local() { Some(t) => Some(t), None => q.steal() };
        match t {
            Some(t) => { got[id_of(&t)] += 1; drained += 1; forget(t); }
            None => break,
        }
        guard += 1;
    }
    assert!(drained == remaining, "len() disagrees with what can be taken out");
    assert!(q.is_empty());
    let mut i = 0;
    while i < 4 {
        assert!(got[i] == if pushed[i] { 1 } else { 0 }, "a task was lost, duplicated or invented");
        i += 1;
    }
    zcover!(remaining > 0, "opt: something was left to drain");
    zcover!(true, "end reached");
    forget(q);
}
macro_rules! c18_qscript {
    ($name:ident, $tier:ident, $unwind:literal, $cap:literal, $script:expr) => {
        zv_harness! {
            name: $name,
            prop: "C18",
            tier: $tier,
            unwind: $unwind,
            stubs: [alloc::fmt::format => crate::common::stubs::fmt_format],
            targets: "concurrency::work_stealing::WorkStealingQueue::{push_local, pop_local, steal, balance, len, is_empty}",
            bounds: "one queue of the capacity given by the instance; the concrete operation script of the instance (0 / 4 push_local of a new task of priority class 0 / 1, 1 pop_local, 2 steal, 3 balance); every pushed task has a symbolic stealable flag; each queue operation is atomic (holds its mutexes for its whole body)",
            oracle: "every accepted task is obtained exactly once over the script plus a final drain; len() equals the number of tasks that can still be taken out; a push is refused only when the local queue is full",
            body: { queue_script(&$script, $cap) }
        }
    };
}
c18_qscript!(c18_q_push2_steal_pop, probe, 6, 2, [0u8, 4, 2, 1]);
c18_qscript!(c18_q_push2_bal_steal, probe, 6, 2, [4u8, 0, 3, 2]);
c18_qscript!(c18_q_push3_full_bal, probe, 6, 2, [0u8, 0, 4, 3, 1]);
c18_qscript!(c18_q_push3_bal_steal2, probe, 7, 3, [0u8, 4, 0, 3, 2, 2, 1]);

// ---- probes (cost calibration)
zv_harness! {
    name: c18_probe_queue_push_pop,
    prop: "C18",
    tier: probe,
    unwind: 4,
    stubs: [alloc::fmt::format => crate::common::stubs::fmt_format],
    targets: "WorkStealingQueue::{push_local, pop_local}",
    bounds: "one queue cap 2, one task with symbolic class/stealable, push then pop",
    oracle: "the task pushed is the task popped",
    body: {
        let q = WorkStealingQueue::new(0, 2);
        let class: u8 = vany();
        assume(class < 2);
        let st: bool = vany();
        let r = q.push_local(mk(1, class, st));
        assert!(r.is_ok());
        forget(r);
        let t = q.pop_local();
        match t {
            Some(t) => { assert!(id_of(&t) == 1); forget(t); }
            None => panic!("lost"),
        }
        zcover!(true, "end");
        forget(q);
    }
}

//! C19 — file-backed structures reopen as written; damaged files are refused.
//!
//! The "file" is a byte image in memory. Crash points are solver variables: a symbolic truncation
//! length, a per-16-byte-block symbolic choice between an old and a new image, a symbolic header.
//! Targets: `ZipOffsetBlobStore::load_from_reader`, `HuffmanTree::deserialize`, `MmapVec::open`.
use crate::common::*;
use std::path::Path;
use zipora::blob_store::{
    BlobStore, CompressedBlobStore, SortedUintVecConfig, ZipOffsetBlobStore,
    ZipOffsetBlobStoreBuilder, ZipOffsetBlobStoreConfig,
};
use zipora::entropy::HuffmanTree;
use zipora::memory::{MmapAllocation, MmapVec, MmapVecConfig};

fn zo_config() -> ZipOffsetBlobStoreConfig {
    ZipOffsetBlobStoreConfig {
        compress_level: 0,
        checksum_level: 0,
        offset_config: SortedUintVecConfig { log2_block_units: 4, offset_width: 8, sample_width: 16, use_simd: false },
        use_secure_memory: false,
        enable_simd: false,
    }
}

/// The 128-byte header that the real `save_to_writer` emits for a store created with
/// `ZipOffsetBlobStore::with_config` (the only kind of store the public API can produce today:
/// `ZipOffsetBlobStoreBuilder::finish` also returns such a store). Fields are then set by the
/// harness at the offsets `FileHeader::to_bytes` uses.
fn saved_header() -> [u8; 128] {
    let rs = ZipOffsetBlobStore::with_config(zo_config());
    let s = match rs { Ok(s) => s, Err(e) => { forget(e); panic!("config") } };
    let mut img: Vec<u8> = Vec::with_capacity(256);
    let w = s.save_to_writer(&mut img);
    assert!(w.is_ok());
    forget(w);
    assert!(img.len() >= 128, "image shorter than its header");
    let mut h = [0u8; 128];
    h.copy_from_slice(&img[..128]);
    forget(img);
    forget(s);
    h
}

fn put_u64(h: &mut [u8; 128], at: usize, v: u64) {
    h[at..at + 8].copy_from_slice(&v.to_le_bytes());
}

const OFF_UNZIP: usize = 48;
const OFF_RECORDS: usize = 56;
const OFF_CONTENT: usize = 64;

zv_harness! {
    name: c19_zipoffset_trunc,
    prop: "C19",
    tier: probe,
    unwind: 40,
    stubs: [
        alloc::fmt::format => crate::common::stubs::fmt_format,
        std::io::_eprint => crate::c19_files::eprint_noop,
        std::rt::thread_cleanup => crate::common::stubs::noop
    ],
    targets: "ZipOffsetBlobStore::save_to_writer -> load_from_reader (FileHeader::from_bytes/validate, content + padding read_exact)",
    bounds: "image = header written by the real save_to_writer, content_bytes field set to 20, followed by 20 symbolic content bytes and 12 padding bytes (160 bytes); truncation length t symbolic in 0..=160",
    oracle: "load(&image[..t]) is Err for every t < 160 (file cut short => refused); for t == 160 it is Ok and reports compressed_size == 20 (what the header vouches for)",
    body: {
        let mut h = saved_header();
        put_u64(&mut h, OFF_CONTENT, 20);
        let content: [u8; 20] = vany();
        let mut img = [0u8; 160];
        img[..128].copy_from_slice(&h);
        img[128..148].copy_from_slice(&content);
        let t = vrange_usize(0, 160);
        let mut rd: &[u8] = &img[..t];
        let r = ZipOffsetBlobStore::load_from_reader(&mut rd);
        match &r {
            Ok(s) => {
                assert!(t == 160, "a truncated image was accepted");
                assert!(s.compression_stats().compressed_size == 20);
            }
            Err(_) => assert!(t < 160, "the complete image was refused"),
        }
        zcover!(t == 160, "complete image");
        zcover!(t == 159, "one padding byte missing");
        zcover!(t == 130, "cut inside the content");
        zcover!(t == 100, "cut inside the header");
        forget(r);
    }
}

zv_harness! {
    name: c19_zipoffset_hdr_oversize,
    prop: "C19",
    tier: probe,
    unwind: 40,
    stubs: [
        alloc::fmt::format => crate::common::stubs::fmt_format,
        std::io::_eprint => crate::c19_files::eprint_noop,
        std::rt::thread_cleanup => crate::common::stubs::noop
    ],
    targets: "ZipOffsetBlobStore::load_from_reader (content_bytes from the header -> FastVec::reserve / vec![0; n])",
    bounds: "image = valid 128-byte header from the real save_to_writer whose content_bytes field holds a symbolic value n > isize::MAX (a damaged length field), no content behind it",
    oracle: "load_from_reader returns Err (the file cannot contain n bytes); it must not panic or abort",
    body: {
        let mut h = saved_header();
        let n: u64 = vany();
        assume(n > isize::MAX as u64);
        put_u64(&mut h, OFF_CONTENT, n);
        let mut rd: &[u8] = &h[..];
        let r = ZipOffsetBlobStore::load_from_reader(&mut rd);
        assert!(r.is_err(), "a header claiming more content than any file can hold was accepted");
        zcover!(true, "returned");
        forget(r);
    }
}

zv_harness! {
    name: c19_zipoffset_torn_header,
    prop: "C19",
    tier: probe,
    unwind: 40,
    stubs: [
        alloc::fmt::format => crate::common::stubs::fmt_format,
        std::io::_eprint => crate::c19_files::eprint_noop,
        std::rt::thread_cleanup => crate::common::stubs::noop
    ],
    targets: "ZipOffsetBlobStore::load_from_reader (no checksum / footer validation)",
    bounds: "old image: header(records=1, unzip=4, content=16) + 16 bytes 0xAA; new image: header(records=2, unzip=32, content=32) + 32 bytes 0xBB; headers are the real save_to_writer header with these three fields set; the file on disk is, per 16-byte block, a symbolic choice of old or new (old is padded with new's tail: an interrupted overwrite)",
    oracle: "load is Err, or Ok with (compressed_count, uncompressed_size, compressed_size) equal to the old triple or to the new triple; never a mixture",
    body: {
        let base = saved_header();
        let mut old = [0u8; 160];
        let mut new = [0u8; 160];
        let mut ho = base; put_u64(&mut ho, OFF_RECORDS, (u64::from_le_bytes([base[56],base[57],base[58],base[59],base[60],base[61],base[62],base[63]]) & !0xFF_FFFF_FFFF) | 1);
        put_u64(&mut ho, OFF_UNZIP, 4); put_u64(&mut ho, OFF_CONTENT, 16);
        let mut hn = base; put_u64(&mut hn, OFF_RECORDS, (u64::from_le_bytes([base[56],base[57],base[58],base[59],base[60],base[61],base[62],base[63]]) & !0xFF_FFFF_FFFF) | 2);
        put_u64(&mut hn, OFF_UNZIP, 32); put_u64(&mut hn, OFF_CONTENT, 32);
        old[..128].copy_from_slice(&ho);
        new[..128].copy_from_slice(&hn);
        old[128..144].copy_from_slice(&[0xAA; 16]);
        old[144..160].copy_from_slice(&[0xBB; 16]);
        new[128..160].copy_from_slice(&[0xBB; 32]);
        let pick: [bool; 10] = vany();
        let mut img = old;
        let mut k = 0;
        while k < 10 {
            if pick[k] { img[16 * k..16 * k + 16].copy_from_slice(&new[16 * k..16 * k + 16]); }
            k += 1;
        }
        let mut rd: &[u8] = &img[..];
        let r = ZipOffsetBlobStore::load_from_reader(&mut rd);
        match &r {
            Ok(s) => {
                let st = s.compression_stats();
                let is_old = st.compressed_count == 1 && st.uncompressed_size == 4 && st.compressed_size == 16;
                let is_new = st.compressed_count == 2 && st.uncompressed_size == 32 && st.compressed_size == 32;
                assert!(is_old || is_new, "a torn header (mixture of old and new blocks) was accepted");
                zcover!(is_old, "old state recovered");
                zcover!(is_new, "new state recovered");
            }
            Err(_) => {}
        }
        forget(r);
    }
}

// ------------------------------------------------------------------------------------------
// HuffmanTree serialize -> truncated deserialize
// ------------------------------------------------------------------------------------------

zv_harness! {
    name: c19_huffman_trunc,
    prop: "C19",
    tier: probe,
    unwind: 260,
    stubs: [
        alloc::fmt::format => crate::common::stubs::fmt_format,
        std::hash::RandomState::new => crate::c19_files::fixed_random_state
    ],
    targets: "HuffmanTree::from_data, serialize, deserialize",
    bounds: "tree of the concrete data \"aab\" (2 symbols), serialized image (8 bytes); truncation length t symbolic in 0..=len; SipHash keys fixed",
    oracle: "deserialize(&image[..t]) is Err for t < len; for t == len it is Ok and get_code(sym) equals the original code for both symbols",
    body: {
        let rt = HuffmanTree::from_data(b"aab");
        let tree = match rt { Ok(t) => t, Err(e) => { forget(e); panic!("from_data") } };
        let img = tree.serialize();
        let n = img.len();
        assert!(n == 8, "2 symbols x (symbol, length, 1 code byte) + 2");
        let t = vrange_usize(0, 8);
        let r = HuffmanTree::deserialize(&img[..t]);
        match &r {
            Ok(d) => {
                assert!(t == n, "a truncated tree image was accepted");
                let mut k = 0;
                while k < 2 {
                    let sym = if k == 0 { b'a' } else { b'b' };
                    match (tree.get_code(sym), d.get_code(sym)) {
                        (Some(x), Some(y)) => {
                            assert!(x.len() == y.len() && x.len() == 1 && x[0] == y[0], "code differs after reopen");
                        }
                        _ => panic!("symbol lost after reopen"),
                    }
                    k += 1;
                }
                assert!(d.get_code(b'c').is_none());
            }
            Err(_) => assert!(t < n, "the complete tree image was refused"),
        }
        zcover!(t == n, "complete image");
        zcover!(t == n - 1, "last code byte missing");
        zcover!(t == 1, "cut inside the count");
        forget(r);
        forget(img);
        forget(tree);
    }
}

/// Stub for `std::io::_eprint`: diagnostics on `zipora_verify!` failure paths (which then abort).
pub fn eprint_noop(_args: core::fmt::Arguments<'_>) {}

/// Stub for `std::hash::RandomState::new` (fixed SipHash keys). Local helper.
pub fn fixed_random_state() -> std::collections::hash_map::RandomState {
    // SAFETY: RandomState is a pair of u64 keys.
    unsafe { core::mem::transmute::<[u64; 2], std::collections::hash_map::RandomState>([0x0706050403020100, 0x0f0e0d0c0b0a0908]) }
}

// ------------------------------------------------------------------------------------------
// MmapVec::open: header validation against the file
// ------------------------------------------------------------------------------------------

/// Size of the mapping the real `create_mmap` makes for any file <= 64 KiB.
const MAP_SIZE: usize = 64 * 1024;
/// Size of the real header: magic u64, version u32, element_size u32, length u64, capacity u64, reserved [u64; 6].
const HDR: usize = 80;
/// Size of the modelled file: header (80) + 4 elements of u32.
const FILE_LEN: usize = HDR + 4 * 4;

static mut C19_FILE: [u8; FILE_LEN] = [0; FILE_LEN];

#[repr(C)]
struct FakeAlloc {
    ptr: core::ptr::NonNull<u8>,
    size: usize,
    actual_size: usize,
}

/// Replacement for the private `MmapVec::<T>::create_mmap` (which calls fs::metadata, mmap(2) and
/// fs::read): a zero-filled MAP_SIZE buffer with the modelled file copied to its start — exactly
/// what the real function produces for a file of FILE_LEN bytes.
pub fn stub_create_mmap<T>(_path: &Path, _config: &MmapVecConfig) -> zipora::error::Result<MmapAllocation> {
    let mut v = vec![0u8; MAP_SIZE];
    let file: [u8; FILE_LEN] = unsafe { C19_FILE };
    v[..FILE_LEN].copy_from_slice(&file);
    let p = v.as_mut_ptr();
    forget(v);
    let fake = FakeAlloc { ptr: core::ptr::NonNull::new(p).unwrap(), size: MAP_SIZE, actual_size: MAP_SIZE };
    // SAFETY: MmapAllocation is three word-sized fields (ptr, size, actual_size); checked below.
    let a: MmapAllocation = unsafe { core::mem::transmute::<FakeAlloc, MmapAllocation>(fake) };
    assert!(a.size() == MAP_SIZE && a.as_ptr::<u8>() == p, "fabricated MmapAllocation layout");
    Ok(a)
}
/// Stub for the private `MmapVec::backing_file_len` (std::fs::metadata is a syscall): the modelled file has
/// exactly FILE_LEN bytes. (Stubbing `std::fs::metadata` itself was measured 8x more expensive: the
/// `io::Result<Metadata>` error path is explored. This module is feature-isolated, so a change that
/// removes the helper breaks only the C19 check's build, which is reported as such.)
pub fn stub_backing_file_len<T>(_path: &Path) -> zipora::error::Result<u64> {
    Ok(FILE_LEN as u64)
}

pub fn stub_path_exists(_p: &Path) -> bool {
    true
}

fn mmapvec_config() -> MmapVecConfig {
    // struct literal, not Default::default(): the default runs the CPUID/sysfs cache detector
    MmapVecConfig {
        initial_capacity: 4,
        growth_factor: 2.0,
        read_only: false,
        populate_pages: false,
        use_huge_pages: false,
        sync_on_write: false,
        enable_cache_alignment: false,
        cache_config: None,
        enable_numa_awareness: false,
        access_pattern: zipora::memory::AccessPattern::Mixed,
        enable_prefetching: false,
        prefetch_distance: 64,
    }
}

/// Symbolic 80-byte header + concrete zero data, published to the stub (Kani) or written to a
/// real temporary file (native replay). Returns the path to open.
fn mmapvec_file(tag: &str) -> std::path::PathBuf {
    let hdr: [u8; HDR] = vany();
    let mut file = [0u8; FILE_LEN];
    file[..HDR].copy_from_slice(&hdr);
    unsafe { C19_FILE = file; }
    #[cfg(kani)]
    { let _ = tag; std::path::PathBuf::from("zv_c19.bin") }
    #[cfg(not(kani))]
    {
        let p = std::env::temp_dir().join(format!("zv_c19_{}_{}.bin", tag, std::process::id()));
        std::fs::write(&p, &file[..]).expect("write model file");
        p
    }
}

zv_harness! {
    name: c19_mmapvec_open_len_in_file,
    prop: "C19",
    tier: quick,
    unwind: 100,
    stubs: [
        alloc::fmt::format => crate::common::stubs::fmt_format,
        zipora::memory::mmap_vec::MmapVec::create_mmap => crate::c19_files::stub_create_mmap,
        std::path::Path::exists => crate::c19_files::stub_path_exists,
        zipora::memory::mmap_vec::MmapVec::backing_file_len => crate::c19_files::stub_backing_file_len
    ],
    targets: "MmapVec::<u32>::open (update_pointers, validate_header / MmapVecHeader::validate), len, capacity",
    bounds: "file of 96 bytes (80-byte header + room for 4 u32): all 80 header bytes symbolic (magic, version, element size, length, capacity, reserved); mapping = 64 KiB zero-filled buffer with the file at its start, as the real create_mmap builds it",
    oracle: "open is Err, or Ok with len() <= capacity() and 80 + 4*len() <= 96: every element the header vouches for is inside the file",
    body: {
        let p = mmapvec_file("len");
        let r = MmapVec::<u32>::open(&p, mmapvec_config());
        #[cfg(not(kani))]
        let _ = std::fs::remove_file(&p);
        match &r {
            Ok(v) => {
                let len = v.len();
                assert!(len <= v.capacity(), "length exceeds capacity after open");
                assert!(len <= (FILE_LEN - HDR) / 4, "open accepted a header whose length reaches past the end of the file");
                zcover!(len == 4, "a full valid file accepted");
            }
            Err(_) => {}
        }
        forget(r);
        forget(p);
    }
}

zv_harness! {
    name: c19_mmapvec_open_len_in_mapping,
    prop: "C19",
    tier: quick,
    unwind: 100,
    stubs: [
        alloc::fmt::format => crate::common::stubs::fmt_format,
        zipora::memory::mmap_vec::MmapVec::create_mmap => crate::c19_files::stub_create_mmap,
        std::path::Path::exists => crate::c19_files::stub_path_exists,
        zipora::memory::mmap_vec::MmapVec::backing_file_len => crate::c19_files::stub_backing_file_len
    ],
    targets: "MmapVec::<u32>::open, len (as_slice()/get(i) dereference data + i for i < len without any further check)",
    bounds: "same file model as c19_mmapvec_open_len_in_file (96-byte file, all 80 header bytes symbolic, 64 KiB mapping)",
    oracle: "open is Err, or Ok with 80 + 4*len() <= 65536: get(len()-1) and as_slice() stay inside the mapping (otherwise they read unmapped memory: SIGSEGV)",
    body: {
        let p = mmapvec_file("map");
        let r = MmapVec::<u32>::open(&p, mmapvec_config());
        #[cfg(not(kani))]
        let _ = std::fs::remove_file(&p);
        match &r {
            Ok(v) => {
                let len = v.len();
                assert!(HDR.checked_add(len.saturating_mul(4)).map_or(false, |e| e <= MAP_SIZE),
                    "open accepted a header whose length reaches past the end of the mapping: get(len-1) reads unmapped memory");
                zcover!(len == 4, "a full valid file accepted");
            }
            Err(_) => {}
        }
        forget(r);
        forget(p);
    }
}

const MMAP_VEC_MAGIC: u64 = 0x4D4D41505F564543;

/// Header bytes as the real `MmapVecHeader` lays them out (repr(C): magic u64, version u32,
/// element_size u32, length u64, capacity u64, reserved [u64; 6]).
fn header_bytes(magic: u64, version: u32, elem: u32, length: u64, capacity: u64) -> [u8; HDR] {
    let mut h = [0u8; HDR];
    h[0..8].copy_from_slice(&magic.to_le_bytes());
    h[8..12].copy_from_slice(&version.to_le_bytes());
    h[12..16].copy_from_slice(&elem.to_le_bytes());
    h[16..24].copy_from_slice(&length.to_le_bytes());
    h[24..32].copy_from_slice(&capacity.to_le_bytes());
    h
}

/// Publish a file image to the stub (Kani) or write it to a temporary file (native replay).
fn publish_file(tag: &str, file: [u8; FILE_LEN]) -> std::path::PathBuf {
    unsafe { C19_FILE = file; }
    #[cfg(kani)]
    { let _ = tag; std::path::PathBuf::from("zv_c19.bin") }
    #[cfg(not(kani))]
    {
        let p = std::env::temp_dir().join(format!("zv_c19_{}_{}.bin", tag, std::process::id()));
        std::fs::write(&p, &file[..]).expect("write model file");
        p
    }
}

zv_harness! {
    name: c19_mmapvec_reopen_as_written,
    prop: "C19",
    tier: probe,
    unwind: 24,
    stubs: [
        alloc::fmt::format => crate::common::stubs::fmt_format,
        zipora::memory::mmap_vec::MmapVec::create_mmap => crate::c19_files::stub_create_mmap,
        std::path::Path::exists => crate::c19_files::stub_path_exists,
        zipora::memory::mmap_vec::MmapVec::backing_file_len => crate::c19_files::stub_backing_file_len
    ],
    targets: "MmapVec::<u32>::open, len, capacity, get, as_slice on a well-formed file",
    bounds: "80-byte file = valid header (magic, version 1, element size 4, capacity 4) with symbolic length in 0..=4 followed by 4 symbolic u32 elements",
    oracle: "open is Ok; len() == header length; get(i) == element i of the file for i < len; get(len) is None; as_slice() has len elements equal to the file's",
    body: {
        let n: u64 = vany();
        assume(n <= 4);
        let data: [u32; 4] = vany();
        let mut file = [0u8; FILE_LEN];
        file[..HDR].copy_from_slice(&header_bytes(MMAP_VEC_MAGIC, 1, 4, n, 4));
        let mut i = 0;
        while i < 4 { file[HDR + 4 * i..HDR + 4 + 4 * i].copy_from_slice(&data[i].to_le_bytes()); i += 1; }
        let p = publish_file("ok", file);
        let r = MmapVec::<u32>::open(&p, mmapvec_config());
        #[cfg(not(kani))]
        let _ = std::fs::remove_file(&p);
        match &r {
            Ok(v) => {
                assert!(v.len() == n as usize, "length after reopen differs from the header");
                assert!(v.capacity() == 4);
                let mut i = 0;
                while i < 4 {
                    if i < n as usize { assert!(v.get(i) == Some(&data[i]), "element differs after reopen"); }
                    else { assert!(v.get(i).is_none(), "element beyond len exposed"); }
                    i += 1;
                }
                let s = v.as_slice();
                assert!(s.len() == n as usize);
                if n == 4 { assert!(s[3] == data[3]); }
                zcover!(n == 4, "full vector reopened");
                zcover!(n == 0, "empty vector reopened");
            }
            Err(_) => panic!("a well-formed file was refused"),
        }
        forget(r);
        forget(p);
    }
}

zv_harness! {
    name: c19_mmapvec_open_len_cap_vs_file,
    prop: "C19",
    tier: quick,
    unwind: 24,
    stubs: [
        alloc::fmt::format => crate::common::stubs::fmt_format,
        zipora::memory::mmap_vec::MmapVec::create_mmap => crate::c19_files::stub_create_mmap,
        std::path::Path::exists => crate::c19_files::stub_path_exists,
        zipora::memory::mmap_vec::MmapVec::backing_file_len => crate::c19_files::stub_backing_file_len
    ],
    targets: "MmapVec::<u32>::open -> MmapVecHeader::validate (length <= capacity is the only size check)",
    bounds: "96-byte file (room for 4 u32) whose header has valid magic/version/element size and symbolic length and capacity (any u64): a file cut short after the header was written, or a capacity persisted before the file was extended",
    oracle: "open is Err, or Ok with 80 + 4*capacity() <= 96 and len() <= capacity(): the header never vouches for more than the file holds",
    body: {
        let length: u64 = vany();
        let capacity: u64 = vany();
        let mut file = [0u8; FILE_LEN];
        file[..HDR].copy_from_slice(&header_bytes(MMAP_VEC_MAGIC, 1, 4, length, capacity));
        let p = publish_file("cap", file);
        let r = MmapVec::<u32>::open(&p, mmapvec_config());
        #[cfg(not(kani))]
        let _ = std::fs::remove_file(&p);
        match &r {
            Ok(v) => {
                assert!(v.len() <= v.capacity(), "length exceeds capacity after open");
                assert!(v.capacity() <= (FILE_LEN - HDR) / 4, "open accepted a capacity larger than the file");
                zcover!(v.len() == 4, "full valid file accepted");
            }
            Err(_) => {}
        }
        forget(r);
        forget(p);
    }
}

zv_harness! {
    name: c19_mmapvec_open_rejects_foreign_header,
    prop: "C19",
    tier: quick,
    unwind: 24,
    stubs: [
        alloc::fmt::format => crate::common::stubs::fmt_format,
        zipora::memory::mmap_vec::MmapVec::create_mmap => crate::c19_files::stub_create_mmap,
        std::path::Path::exists => crate::c19_files::stub_path_exists,
        zipora::memory::mmap_vec::MmapVec::backing_file_len => crate::c19_files::stub_backing_file_len
    ],
    targets: "MmapVec::<u32>::open -> MmapVecHeader::validate (magic, version, element size)",
    bounds: "96-byte file with symbolic magic, version and element size (any values), length 2, capacity 4",
    oracle: "open is Ok exactly when magic == MMAP_VEC, version == 1 and element size == 4 (a file of another element type or format is refused)",
    body: {
        let magic: u64 = vany();
        let version: u32 = vany();
        let elem: u32 = vany();
        let mut file = [0u8; FILE_LEN];
        file[..HDR].copy_from_slice(&header_bytes(magic, version, elem, 2, 4));
        let p = publish_file("hdr", file);
        let r = MmapVec::<u32>::open(&p, mmapvec_config());
        #[cfg(not(kani))]
        let _ = std::fs::remove_file(&p);
        let good = magic == MMAP_VEC_MAGIC && version == 1 && elem == 4;
        assert!(r.is_ok() == good, "header validation disagrees with (magic, version, element size)");
        zcover!(good, "valid header");
        zcover!(magic == MMAP_VEC_MAGIC && version == 1 && elem == 8, "file of u64 elements opened as u32");
        forget(r);
        forget(p);
    }
}

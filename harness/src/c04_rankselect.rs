//! C04 — rank/select answers match the bit-sequence definition in every implementation.
//!
//! Shape of every instance: a bit string of concrete length `L` held in `NW = ceil(L/64)` raw
//! words; in the words at the two indices `S0`, `S1` the bits selected by the concrete masks `M0`,
//! `M1` are symbolic (2^(popcount M0 + popcount M1) fillings, placed on the boundary under test),
//! every other bit comes from the concrete filler pattern `FILL`. The string goes through the real `BitVector::from_raw_bits`
//! (which must mask the tail) and the real constructor of the structure under test. Queries
//! (`p`, `k`, `i`) are symbolic. Oracle = popcount-prefix loop over the harness' own masked copy of
//! the words ("number of one bits before p"); select answers are checked against the *definition*
//! (`r < L`, bit r has the polarity, exactly k such bits before r), never against a second
//! implementation.
//!
//! CPU tier: `zipora::system::cpu_features::get_cpu_features` is replaced by `cpu_none` (the real
//! `CpuFeatures` record with every feature false) and `__cpuid_count` by all-zero, so
//! `is_x86_feature_detected!` is false everywhere: what is checked is the portable scalar tier of
//! every implementation. (`cfg(target_feature = "popcnt")` is off in the Kani build as well.)
use crate::common::*;
use zipora::succinct::rank_select::{
    RankSelectAllOne, RankSelectAllZero, RankSelectFewOne, RankSelectFewZero, RankSelectInterleaved256,
    RankSelectMixedIL256, RankSelectOps, RankSelectPerformanceOps, RankSelectSE256, RankSelectSE512,
    RankSelectSimple,
};
use zipora::succinct::BitVector;
use zipora::system::CpuFeatures;

// ------------------------------------------------------------------------------------------ stubs

static CPU_NONE: CpuFeatures = CpuFeatures {
    has_sse41: false,
    has_sse42: false,
    has_avx: false,
    has_avx2: false,
    has_avx512f: false,
    has_avx512vl: false,
    has_avx512bw: false,
    has_avx512vpopcntdq: false,
    has_bmi1: false,
    has_bmi2: false,
    has_popcnt: false,
    has_lzcnt: false,
    has_tzcnt: false,
    has_prefetchw: false,
    has_neon: false,
    has_crc32: false,
    has_crypto: false,
    has_sve: false,
    has_sve2: false,
    l1_cache_size: 32 * 1024,
    l2_cache_size: 256 * 1024,
    l3_cache_size: 8 * 1024 * 1024,
    cache_line_size: 64,
    logical_cores: 1,
    physical_cores: 1,
    vendor: String::new(),
    model: String::new(),
    optimization_tier: 1,
    simd_tier: 0,
};

/// Replacement for `zipora::system::cpu_features::get_cpu_features`: the value the real detector
/// produces on a CPU without any optional feature (`CpuFeatures::new()` + tier 1 / simd tier 0).
/// The real detector (raw_cpuid, available_parallelism, OnceLock) is not the subject of C04.
pub fn cpu_none() -> &'static CpuFeatures {
    &CPU_NONE
}

/// `get_cpu_features` on a CPU with POPCNT/LZCNT/BMI1/BMI2/SSE4.2 and no AVX2 (tier 3 of SimdCapabilities).
pub fn cpu_bmi2() -> &'static CpuFeatures {
    static CPU_BMI2: CpuFeatures = CpuFeatures {
        has_sse41: true,
        has_sse42: true,
        has_avx: false,
        has_avx2: false,
        has_avx512f: false,
        has_avx512vl: false,
        has_avx512bw: false,
        has_avx512vpopcntdq: false,
        has_bmi1: true,
        has_bmi2: true,
        has_popcnt: true,
        has_lzcnt: true,
        has_tzcnt: true,
        has_prefetchw: false,
        has_neon: false,
        has_crc32: false,
        has_crypto: false,
        has_sve: false,
        has_sve2: false,
        l1_cache_size: 32 * 1024,
        l2_cache_size: 256 * 1024,
        l3_cache_size: 8 * 1024 * 1024,
        cache_line_size: 64,
        logical_cores: 1,
        physical_cores: 1,
        vendor: String::new(),
        model: String::new(),
        optimization_tier: 3,
        simd_tier: 1,
    };
    &CPU_BMI2
}

/// Intel SDM pseudo code of PDEP r64 (stdarch reaches it through an LLVM intrinsic without body).
pub fn isa_pdep64(src: u64, mask: u64) -> u64 {
    let mut res = 0u64;
    let mut k = 0u32;
    let mut m = 0u32;
    while m < 64 {
        if (mask >> m) & 1 == 1 {
            if (src >> k) & 1 == 1 {
                res |= 1u64 << m;
            }
            k += 1;
        }
        m += 1;
    }
    res
}

/// `_mm_prefetch` is a hint without architectural effect.
pub unsafe fn prefetch_noop<const STRATEGY: i32>(_p: *const i8) {}

// ------------------------------------------------------------------------------------------ oracle

const ALT: u64 = 0xAAAA_AAAA_AAAA_AAAA;
const MIX: u64 = 0x8421_1248_F00F_3C5A;
const ALL: u64 = !0u64;
const TOP8: u64 = 0xFF00_0000_0000_0000;
const TOP16: u64 = 0xFFFF_0000_0000_0000;
const LOW8: u64 = 0xFF;
const LOW16: u64 = 0xFFFF;
const NONE: u64 = 0;

#[inline(always)]
fn low_mask(n: usize) -> u64 {
    if n >= 64 {
        !0
    } else {
        (1u64 << n) - 1
    }
}

/// The bit sequence under test: `len` bits, bit i = bit (i%64) of words[i/64]; `words` is already
/// masked beyond `len`.
struct Seq<const NW: usize> {
    words: [u64; NW],
    len: usize,
}

impl<const NW: usize> Seq<NW> {
    /// Word s0 gets symbolic bits under mask m0, word s1 under m1 (s0 == s1: masks are or-ed; an
    /// index >= NW or an empty mask means "no symbolic bits"); everything else is `fill`.
    /// Returns (raw unmasked words as handed to zipora, the masked sequence = the definition).
    fn make(len: usize, s0: usize, m0: u64, s1: usize, m1: u64, fill: u64) -> ([u64; NW], Self) {
        let mut raw = [fill; NW];
        let mut i = 0;
        while i < NW {
            let mut m = 0u64;
            if i == s0 {
                m |= m0;
            }
            if i == s1 {
                m |= m1;
            }
            if m != 0 {
                let v: u64 = vany();
                raw[i] = (fill & !m) | (v & m);
            }
            i += 1;
        }
        let mut words = raw;
        if len % 64 != 0 {
            words[NW - 1] &= low_mask(len % 64);
        }
        (raw, Seq { words, len })
    }
    #[inline(always)]
    fn bit(&self, i: usize) -> bool {
        (self.words[i / 64] >> (i % 64)) & 1 == 1
    }
    /// number of one bits before position p (definition; p <= len)
    fn rank1(&self, p: usize) -> usize {
        let mut c = 0usize;
        let mut w = 0;
        while w < NW {
            let lo = w * 64;
            if p >= lo + 64 {
                c += self.words[w].count_ones() as usize;
            } else if p > lo {
                c += (self.words[w] & low_mask(p - lo)).count_ones() as usize;
            }
            w += 1;
        }
        c
    }
    fn ones(&self) -> usize {
        self.rank1(self.len)
    }
    fn bitvector(&self, raw: [u64; NW]) -> BitVector {
        let r = BitVector::from_raw_bits(raw.to_vec(), self.len);
        match r {
            Ok(bv) => bv,
            Err(e) => {
                forget(e);
                panic!("from_raw_bits refused a sufficient word vector");
            }
        }
    }
}

/// What the property states for one structure, for symbolic p (rank/get position).
fn check_rank<const NW: usize, R: RankSelectOps>(rs: &R, s: &Seq<NW>) {
    assert!(rs.len() == s.len, "len");
    assert!(rs.count_ones() == s.ones(), "count_ones");
    assert!(rs.count_zeros() == s.len - s.ones(), "count_zeros");
    let p: usize = vany();
    assume(p <= s.len);
    let want = s.rank1(p);
    let got = rs.rank1(p);
    assert!(got == want, "rank1(p) != number of ones before p");
    assert!(rs.rank0(p) == p - want, "rank0(p) != number of zeros before p");
    if p < s.len {
        assert!(rs.get(p) == Some(s.bit(p)), "get(p) != bit p");
    } else {
        assert!(rs.get(p).is_none(), "get(len) must be None");
    }
    zcover!(p == s.len, "p == len");
    zcover!(s.len <= 64 || (p > 0 && p % 64 == 0 && p < s.len), "p on an interior word boundary (when there is one)");
    zcover!(s.len < 2 || (want > 0 && want < p), "mixed prefix (when len >= 2)");
}

fn check_select1<const NW: usize, R: RankSelectOps>(rs: &R, s: &Seq<NW>) {
    let k: usize = vany();
    let ones = s.ones();
    let r = rs.select1(k);
    match &r {
        Ok(pos) => {
            let pos = *pos;
            assert!(k < ones, "select1(k) must fail for k >= ones");
            assert!(pos < s.len, "select1 result beyond len");
            assert!(s.bit(pos), "select1 result is not a one bit");
            assert!(s.rank1(pos) == k, "select1(k): not exactly k ones before the result");
            assert!(rs.rank1(pos) == k, "rank1(select1(k)) != k");
        }
        Err(_) => {
            assert!(k >= ones, "select1(k) failed for k < ones");
        }
    }
    zcover!(r.is_ok(), "select1 answered");
    zcover!(r.is_err(), "select1 refused");
    zcover!(ones > 0 && k == ones - 1, "last one selected");
    forget(r);
}

fn check_select0<const NW: usize, R: RankSelectOps>(rs: &R, s: &Seq<NW>) {
    let k: usize = vany();
    let zeros = s.len - s.ones();
    let r = rs.select0(k);
    match &r {
        Ok(pos) => {
            let pos = *pos;
            assert!(k < zeros, "select0(k) must fail for k >= zeros");
            assert!(pos < s.len, "select0 result beyond len");
            assert!(!s.bit(pos), "select0 result is not a zero bit");
            assert!(pos - s.rank1(pos) == k, "select0(k): not exactly k zeros before the result");
        }
        Err(_) => {
            assert!(k >= zeros, "select0(k) failed for k < zeros");
        }
    }
    zcover!(r.is_ok(), "select0 answered");
    zcover!(r.is_err(), "select0 refused");
    zcover!(zeros > 0 && k == zeros - 1, "last zero selected");
    forget(r);
}

fn unwrap_rs<T>(r: zipora::Result<T>) -> T {
    match r {
        Ok(v) => v,
        Err(e) => {
            forget(e);
            panic!("constructor failed on a valid bit vector");
        }
    }
}

// ------------------------------------------------------------------------------------------ BitVector itself

fn bv_rank<const NW: usize>(len: usize, s0: usize, m0: u64, s1: usize, m1: u64, fill: u64) {
    let (raw, s) = Seq::<NW>::make(len, s0, m0, s1, m1, fill);
    let bv = s.bitvector(raw);
    assert!(bv.len() == s.len);
    assert!(bv.count_ones() == s.ones());
    assert!(bv.count_zeros() == s.len - s.ones());
    let p: usize = vany();
    assume(p <= s.len);
    assert!(bv.rank1(p) == s.rank1(p), "BitVector::rank1");
    assert!(bv.rank0(p) == p - s.rank1(p), "BitVector::rank0");
    if p < s.len {
        assert!(bv.get(p) == Some(s.bit(p)));
    } else {
        assert!(bv.get(p).is_none());
    }
    // bulk entry point agrees (CPUID all-zero: the non-AVX2 branch of rank1_bulk_simd)
    let out = bv.rank1_bulk_simd(&[p, s.len]);
    assert!(out.len() == 2 && out[0] == s.rank1(p) && out[1] == s.ones(), "rank1_bulk_simd");
    zcover!(p == s.len, "p == len");
    zcover!(s.len <= 64 || (p % 64 == 0 && p > 0 && p < s.len), "interior word boundary (when there is one)");
    forget(out);
    forget(bv);
}

macro_rules! c04_bv {
    ($name:ident, $tier:ident, $unwind:literal, $nw:literal, $len:literal, $s0:literal, $m0:expr, $s1:literal, $m1:expr, $fill:expr) => {
        zv_harness! {
            name: $name,
            prop: "C04",
            tier: $tier,
            unwind: $unwind,
            stubs: [alloc::fmt::format => crate::common::stubs::fmt_format,
                    std::arch::x86_64::__cpuid_count => crate::common::stubs::cpuid_zero],
            targets: "BitVector::from_raw_bits, len, get, count_ones, count_zeros, rank1, rank0, rank1_bulk_simd (non-AVX2 branch)",
            bounds: "bit string of the concrete length L of the instance (args: words NW, L, index and bit mask of the symbolic bits of two words, concrete filler of all other bits); every position 0 <= p <= L; CPUID all-zero",
            oracle: "rank1(p) == popcount-prefix loop over the masked raw words, rank0(p) == p - rank1(p), get(p) == bit p / None at len, count_ones exact, bulk == single",
            body: { bv_rank::<$nw>($len, $s0, $m0, $s1, $m1, $fill) }
        }
    };
}

c04_bv!(c04_bv_rank_l1, quick, 6, 1, 1, 0, ALL, 9, NONE, 0);
c04_bv!(c04_bv_rank_l130, quick, 6, 3, 130, 1, ALL, 2, ALL, ALL);
c04_bv!(c04_bv_rank_l256, thorough, 8, 4, 256, 0, ALL, 3, ALL, ALT);

/// A BitVector that was shrunk with `resize` (public API): blocks() may keep words beyond len.
fn bv_after_resize<const NW: usize>(len0: usize, newlen: usize) -> (BitVector, Seq<NW>) {
    let (raw, s0) = Seq::<NW>::make(len0, 0, ALL, NW - 1, ALL, MIX);
    let mut bv = s0.bitvector(raw);
    let r = bv.resize(newlen, false);
    assert!(r.is_ok());
    forget(r);
    // the sequence after truncation = first newlen bits
    let mut words = s0.words;
    let mut i = 0;
    while i < NW {
        if i * 64 >= newlen {
            words[i] = 0;
        } else if newlen - i * 64 < 64 {
            words[i] &= low_mask(newlen - i * 64);
        }
        i += 1;
    }
    (bv, Seq { words, len: newlen })
}

/// A vector of LEN0 bits shortened by K `pop()` calls (and optionally one `push` afterwards).
fn bv_after_pops<const NW: usize>(len0: usize, pops: usize, push_back: bool) -> (BitVector, Seq<NW>) {
    let (raw, s0) = Seq::<NW>::make(len0, 0, ALL, NW - 1, ALL, MIX);
    let mut bv = s0.bitvector(raw);
    let mut words = s0.words;
    let mut len = len0;
    let mut k = 0;
    while k < pops {
        let got = bv.pop();
        len -= 1;
        let bit = (words[len / 64] >> (len % 64)) & 1 == 1;
        assert!(got == Some(bit), "pop returned a different bit");
        words[len / 64] &= !(1u64 << (len % 64));
        k += 1;
    }
    if push_back {
        let b: bool = vany();
        let r = bv.push(b);
        assert!(r.is_ok());
        forget(r);
        if b {
            words[len / 64] |= 1u64 << (len % 64);
        }
        len += 1;
    }
    (bv, Seq { words, len })
}
macro_rules! c04_popped {
    ($name:ident, $tier:ident, $unwind:literal, $ctor:path, $nw:literal, $len0:literal, $pops:literal, $push:literal) => {
        zv_harness! {
            name: $name,
            prop: "C04",
            tier: $tier,
            unwind: $unwind,
            stubs: [alloc::fmt::format => crate::common::stubs::fmt_format,
                    std::arch::x86_64::__cpuid_count => crate::common::stubs::cpuid_zero,
                    zipora::system::cpu_features::get_cpu_features => crate::c04_rankselect::cpu_none],
            targets: "BitVector::from_raw_bits + BitVector::{pop, push, len, count_ones} + the constructor named by the instance + RankSelectOps::{len,count_ones,count_zeros,rank1,rank0,get}",
            bounds: "bit vector of LEN0 bits (first and last word symbolic, filler 0x84211248F00F3C5A) shortened by POPS pop() calls, then optionally one push of a symbolic bit (args: constructor, words, LEN0, POPS, push); every 0 <= p <= final length",
            oracle: "the sequence is the first LEN0-POPS bits (+ the pushed bit): pop returns the removed bit; BitVector's own len/count_ones and the structure's len/count_ones/rank1/rank0/get match the popcount-prefix loop",
            body: {
                crate::common::stubs::native_tier(crate::c04_rankselect::cpu_none);
                let (bv, s) = bv_after_pops::<$nw>($len0, $pops, $push);
                assert!(bv.len() == s.len && bv.count_ones() == s.ones(), "BitVector after pop");
                let rs = $ctor(bv);
                check_rank(&rs, &s);
                forget(rs);
            }
        }
    };
}
c04_popped!(c04_popped_simple_70_3, quick, 8, simple, 2, 70, 3, false);
c04_popped!(c04_popped_se256_70_3, quick, 8, se256_nosel, 2, 70, 3, false);
c04_popped!(c04_popped_il_70_2_push, quick, 8, il_nocache, 2, 70, 2, true);
c04_popped!(c04_popped_se512_130_2_push, thorough, 10, se512_nosel, 3, 130, 2, true);

macro_rules! c04_resized {
    ($name:ident, $tier:ident, $unwind:literal, $ctor:path, $nw:literal, $len0:literal, $newlen:literal) => {
        zv_harness! {
            name: $name,
            prop: "C04",
            tier: $tier,
            unwind: $unwind,
            stubs: [alloc::fmt::format => crate::common::stubs::fmt_format,
                    std::arch::x86_64::__cpuid_count => crate::common::stubs::cpuid_zero,
                    zipora::system::cpu_features::get_cpu_features => crate::c04_rankselect::cpu_none],
            targets: "BitVector::from_raw_bits + BitVector::resize (shrink) + BitVector::{len,count_ones,rank1} + the constructor named by the instance + RankSelectOps::{len,count_ones,count_zeros,rank1,rank0,get}",
            bounds: "bit vector of LEN0 bits (first and last word symbolic, filler 0x84211248F00F3C5A) truncated by resize(NEWLEN,false) (args: constructor, words, LEN0, NEWLEN); every 0 <= p <= NEWLEN",
            oracle: "the sequence is the first NEWLEN bits: BitVector's own len/count_ones/rank1 and the structure's len/count_ones/rank1/rank0/get match the popcount-prefix loop",
            body: {
                crate::common::stubs::native_tier(crate::c04_rankselect::cpu_none);
                let (bv, s) = bv_after_resize::<$nw>($len0, $newlen);
                assert!(bv.len() == s.len && bv.count_ones() == s.ones(), "BitVector after resize");
                let rs = $ctor(bv);
                check_rank(&rs, &s);
                forget(rs);
            }
        }
    };
}
c04_resized!(c04_resized_se256_128_64, quick, 8, se256_nosel, 2, 128, 64);
c04_resized!(c04_resized_simple_128_64, quick, 8, simple, 2, 128, 64);
c04_resized!(c04_resized_il_128_64, quick, 8, il_nocache, 2, 128, 64);
c04_resized!(c04_resized_se512_192_70, thorough, 10, se512_nosel, 3, 192, 70);

// ------------------------------------------------------------------------------------------ block structures

// constructors named by the instances (all real public constructors)
fn il_nocache(bv: BitVector) -> RankSelectInterleaved256 {
    unwrap_rs(RankSelectInterleaved256::with_options(bv, false, 512))
}
fn il_cache(bv: BitVector) -> RankSelectInterleaved256 {
    unwrap_rs(RankSelectInterleaved256::new(bv))
}
fn il_cache8(bv: BitVector) -> RankSelectInterleaved256 {
    unwrap_rs(RankSelectInterleaved256::with_options(bv, true, 8))
}
fn se256(bv: BitVector) -> RankSelectSE256 {
    unwrap_rs(RankSelectSE256::new(bv))
}
fn se256_nosel(bv: BitVector) -> RankSelectSE256 {
    unwrap_rs(RankSelectSE256::with_options(bv, false, false))
}
fn se512(bv: BitVector) -> RankSelectSE512 {
    unwrap_rs(RankSelectSE512::new(bv))
}
fn se512_nosel(bv: BitVector) -> RankSelectSE512 {
    unwrap_rs(RankSelectSE512::with_options(bv, false, false))
}
fn simple(bv: BitVector) -> RankSelectSimple {
    unwrap_rs(RankSelectSimple::new(bv))
}

/// hardware-accelerated / adaptive / bulk entry points of the interleaved structure agree with
/// the definition (all of them at the scalar tier here)
fn check_il_perf<const NW: usize>(rs: &RankSelectInterleaved256, s: &Seq<NW>) {
    let p: usize = vany();
    assume(p <= s.len);
    let want = s.rank1(p);
    assert!(rs.rank1_hardware_accelerated(p) == want, "rank1_hardware_accelerated");
    assert!(rs.rank1_adaptive(p) == want, "rank1_adaptive");
    assert!(rs.rank1_optimized(p) == want, "rank1_optimized");
    let b = rs.rank1_bulk(&[p, s.len, 0]);
    assert!(b.len() == 3 && b[0] == want && b[1] == s.ones() && b[2] == 0, "rank1_bulk");
    let b2 = rs.rank1_bulk_optimized(&[p]);
    assert!(b2.len() == 1 && b2[0] == want, "rank1_bulk_optimized");
    let data = rs.get_bit_data();
    assert!(data.len() == NW, "get_bit_data length");
    let mut i = 0;
    while i < NW {
        assert!(data[i] == s.words[i], "get_bit_data content");
        i += 1;
    }
    zcover!(p == s.len, "p == len");
    zcover!(want > 0 && want < p, "mixed prefix");
    forget(b);
    forget(b2);
    forget(data);
}
fn check_il_perf_select<const NW: usize>(rs: &RankSelectInterleaved256, s: &Seq<NW>) {
    let k: usize = vany();
    let ones = s.ones();
    let a = rs.select1(k);
    let h = rs.select1_hardware_accelerated(k);
    let d = rs.select1_adaptive(k);
    let o = rs.select1_optimized(k);
    let bulk = rs.select1_bulk(&[k]);
    match (&a, &h, &d, &o, &bulk) {
        (Ok(x), Ok(y), Ok(z), Ok(w), Ok(v)) => {
            assert!(k < ones);
            assert!(*x < s.len && s.bit(*x) && s.rank1(*x) == k, "select1");
            assert!(x == y && x == z && x == w && v.len() == 1 && v[0] == *x, "select1 entry points disagree");
        }
        (Err(_), Err(_), Err(_), Err(_), Err(_)) => assert!(k >= ones, "select1 refused a valid k"),
        _ => panic!("select1 entry points disagree on Ok/Err"),
    }
    zcover!(a.is_ok(), "answered");
    zcover!(a.is_err(), "refused");
    forget(a);
    forget(h);
    forget(d);
    forget(o);
    forget(bulk);
}

macro_rules! c04_rs {
    ($name:ident, $tier:ident, $unwind:literal, $ctor:path, $check:path, $nw:literal, $len:literal, $s0:literal, $m0:expr, $s1:literal, $m1:expr, $fill:expr) => {
        zv_harness! {
            name: $name,
            prop: "C04",
            tier: $tier,
            unwind: $unwind,
            stubs: [alloc::fmt::format => crate::common::stubs::fmt_format,
                    std::arch::x86_64::__cpuid_count => crate::common::stubs::cpuid_zero,
                    zipora::system::cpu_features::get_cpu_features => crate::c04_rankselect::cpu_none,
                    std::arch::x86_64::_mm_prefetch => crate::c04_rankselect::prefetch_noop],
            targets: "BitVector::from_raw_bits + the constructor named by the instance (il_nocache = RankSelectInterleaved256::with_options(_, false, 512); il_cache = RankSelectInterleaved256::new; il_cache8 = with_options(_, true, 8); se256/se512 = RankSelectSE256/SE512::new (select tables on), *_nosel = with_options(_, false, false); simple = RankSelectSimple::new) + the methods named by the check (check_rank: RankSelectOps::{len,count_ones,count_zeros,rank1,rank0,get}; check_select1: select1, rank1; check_select0: select0; check_il_perf: RankSelectPerformanceOps::{rank1_hardware_accelerated, rank1_adaptive, rank1_bulk}, rank1_optimized, rank1_bulk_optimized, get_bit_data; check_il_perf_select: select1, select1_hardware_accelerated, select1_adaptive, select1_optimized, select1_bulk); scalar tier only (no BMI2/POPCNT detected)",
            bounds: "bit string of the concrete length L of the instance (args: constructor, check, words NW, L, index S0 and bit mask M0 / index S1 and mask M1 of the symbolic bits (index >= NW or mask NONE = none), concrete filler of all other bits); check_rank/check_il_perf: every 0 <= p <= L; select checks: every k in usize; get_cpu_features/CPUID report no optional feature",
            oracle: "check_rank: rank1(p) == popcount-prefix loop, rank0(p) == p - rank1(p), get(p) == bit p (None at len), len/count_ones/count_zeros exact. check_select1: select1(k) is Ok(r) iff k < ones, and then r < L, bit r set, exactly k ones before r, rank1(r) == k. check_select0 likewise for zero bits. check_il_perf*: every accelerated/bulk entry point returns the same as the definition",
            body: {
                crate::common::stubs::native_tier(crate::c04_rankselect::cpu_none);
                let (raw, s) = Seq::<$nw>::make($len, $s0, $m0, $s1, $m1, $fill);
                let bv = s.bitvector(raw);
                let rs = $ctor(bv);
                $check(&rs, &s);
                forget(rs);
            }
        }
    };
}

// --- interleaved-256, select cache off (suspected off-by-one in select1_within_line) and on
c04_rs!(c04_il_nocache_rank_l130, quick, 8, il_nocache, check_rank, 3, 130, 1, ALL, 2, ALL, ALL);
c04_rs!(c04_il_nocache_rank_l256, quick, 8, il_nocache, check_rank, 4, 256, 2, TOP16, 3, TOP16, MIX);
c04_rs!(c04_il_nocache_sel1_l130, quick, 70, il_nocache, check_select1, 3, 130, 1, TOP16, 2, ALL, 0u64);
c04_rs!(c04_il_nocache_sel0_l130, quick, 70, il_nocache, check_select0, 3, 130, 1, TOP16, 2, ALL, ALL);
c04_rs!(c04_t_il_cache_sel1_l10, probe, 14, il_cache, check_select1, 1, 10, 0, 0x3FFu64, 9, NONE, 0u64);
c04_rs!(c04_t_il_cache_sel1_l20, probe, 25, il_cache, check_select1, 1, 20, 0, 0xFFFFFu64, 9, NONE, 0u64);
c04_rs!(c04_t_il_cache_sel1_l70, probe, 75, il_cache, check_select1, 2, 70, 0, TOP8, 1, ALL, 0u64);
c04_rs!(c04_t_il_cache_sel1_l600_concrete, probe, 605, il_cache8, check_select1, 10, 600, 99, NONE, 99, NONE, MIX);
c04_rs!(c04_t_il_cache_sel1_l130, probe, 135, il_cache, check_select1, 3, 130, 1, TOP16, 2, ALL, 0u64);
c04_rs!(c04_t_il_cache8_sel1_l130, probe, 135, il_cache8, check_select1, 3, 130, 1, TOP8, 2, ALL, MIX);
c04_rs!(c04_il_perf_rank_l130, quick, 8, il_nocache, check_il_perf, 3, 130, 1, TOP16, 2, ALL, MIX);
c04_rs!(c04_t_il_perf_sel1_l40, probe, 70, il_cache, check_il_perf_select, 1, 40, 0, 0xFF_0000_00FFu64, 9, NONE, 0u64);
c04_rs!(c04_t_il_perf_sel1_l70, probe, 75, il_cache, check_il_perf_select, 2, 70, 0, TOP8, 1, ALL, 0u64);
// --- side-entry 256 / 512, simple
c04_rs!(c04_se256_rank_l256, quick, 8, se256_nosel, check_rank, 4, 256, 2, TOP16, 3, TOP16, MIX);
c04_rs!(c04_se256_sel1_l130, quick, 70, se256_nosel, check_select1, 3, 130, 1, TOP16, 2, ALL, 0u64);
c04_rs!(c04_se256_sel0_l130, quick, 70, se256_nosel, check_select0, 3, 130, 1, TOP16, 2, ALL, ALL);
c04_rs!(c04_t_se256c_sel1_l600_concrete, probe, 70, se256, check_select1, 10, 600, 99, NONE, 99, NONE, ALT);
c04_rs!(c04_t_se256c_sel0_l600_concrete, probe, 70, se256, check_select0, 10, 600, 99, NONE, 99, NONE, MIX);
c04_rs!(c04_t_se512c_sel1_l1100_concrete, probe, 70, se512, check_select1, 18, 1100, 99, NONE, 99, NONE, ALT);
c04_rs!(c04_t_se256c_sel1_l130, probe, 70, se256, check_select1, 3, 130, 1, TOP8, 2, ALL, 0u64);
c04_rs!(c04_se512_rank_l512, quick, 10, se512_nosel, check_rank, 8, 512, 6, TOP16, 7, TOP16, MIX);
c04_rs!(c04_se512_sel1_l130, quick, 70, se512_nosel, check_select1, 3, 130, 1, TOP16, 2, ALL, 0u64);
c04_rs!(c04_simple_rank_l257, quick, 8, simple, check_rank, 5, 257, 3, TOP16, 4, ALL, MIX);
c04_rs!(c04_simple_sel1_l130, quick, 70, simple, check_select1, 3, 130, 1, TOP16, 2, ALL, 0u64);
c04_rs!(c04_simple_sel0_l130, quick, 70, simple, check_select0, 3, 130, 1, TOP16, 2, ALL, ALL);
// --- thorough: two fully symbolic words, longer strings, select tables on
c04_rs!(c04_t_il_nocache_rank_l257, thorough, 8, il_nocache, check_rank, 5, 257, 3, ALL, 4, ALL, MIX);
c04_rs!(c04_t_il_nocache_sel0_l257, thorough, 70, il_nocache, check_select0, 5, 257, 3, ALL, 4, ALL, MIX);
c04_rs!(c04_t_il_cache_sel1_l257, probe, 262, il_cache, check_select1, 5, 257, 3, ALL, 4, ALL, MIX);
c04_rs!(c04_t_se256c_rank_l130, thorough, 8, se256, check_rank, 3, 130, 1, ALL, 2, ALL, ALL);
c04_rs!(c04_t_se256c_sel0_l513, probe, 70, se256, check_select0, 9, 513, 7, ALL, 8, ALL, 0u64);
c04_rs!(c04_t_se256c_sel1_l513, probe, 70, se256, check_select1, 9, 513, 7, ALL, 8, ALL, ALL);
c04_rs!(c04_t_se512c_sel0_l1025, probe, 70, se512, check_select0, 17, 1025, 15, ALL, 16, ALL, 0u64);
c04_rs!(c04_t_se512c_sel1_l1025, probe, 70, se512, check_select1, 17, 1025, 15, ALL, 16, ALL, ALL);
c04_rs!(c04_t_se512_rank_l513, thorough, 12, se512_nosel, check_rank, 9, 513, 7, ALL, 8, ALL, MIX);
c04_rs!(c04_t_simple_sel1_l130, thorough, 70, simple, check_select1, 3, 130, 1, ALL, 2, ALL, 0u64);
c04_rs!(c04_t_simple_sel0_l257, probe, 70, simple, check_select0, 5, 257, 3, ALL, 4, ALL, MIX);

// ------------------------------------------------------------------------------------------ mixed (two dimensions)

macro_rules! c04_mixed {
    ($name:ident, $tier:ident, $unwind:literal, $dim:ident, $check:path, $nw0:literal, $len0:literal, $nw1:literal, $len1:literal) => {
        zv_harness! {
            name: $name,
            prop: "C04",
            tier: $tier,
            unwind: $unwind,
            stubs: [alloc::fmt::format => crate::common::stubs::fmt_format,
                    std::arch::x86_64::__cpuid_count => crate::common::stubs::cpuid_zero],
            targets: "RankSelectMixedIL256::new(bv0, bv1) + MixedDimView (dim0()/dim1()) RankSelectOps::{len,count_ones,rank1,rank0,get | select1} (select0 is not offered by this structure)",
            bounds: "two bit strings of concrete lengths L0, L1 (args: view, check, NW0, L0, NW1, L1); in each the top 16 bits of the next-to-last word and the whole last word are symbolic, filler 0x84211248F00F3C5A; every p <= len / every k",
            oracle: "same as the single-dimension checks, applied to the view of the chosen dimension against its own sequence",
            body: {
                let (raw0, s0) = Seq::<$nw0>::make($len0, $nw0 - 2, TOP16, $nw0 - 1, ALL, MIX);
                let (raw1, s1) = Seq::<$nw1>::make($len1, $nw1 - 2, TOP16, $nw1 - 1, ALL, MIX);
                let bv0 = s0.bitvector(raw0);
                let bv1 = s1.bitvector(raw1);
                let m = unwrap_rs(RankSelectMixedIL256::new(bv0, bv1));
                c04_mixed!(@view $dim, $check, m, s0, s1);
                forget(m);
            }
        }
    };
    (@view dim0, $check:path, $m:ident, $s0:ident, $s1:ident) => { let v = $m.dim0(); $check(&v, &$s0); };
    (@view dim1, $check:path, $m:ident, $s0:ident, $s1:ident) => { let v = $m.dim1(); $check(&v, &$s1); };
}
c04_mixed!(c04_mixed_rank_d0_l200_l130, quick, 8, dim0, check_rank, 4, 200, 3, 130);
c04_mixed!(c04_mixed_rank_d1_l200_l130, quick, 8, dim1, check_rank, 4, 200, 3, 130);
c04_mixed!(c04_mixed_rank_d0_l256_l130, quick, 8, dim0, check_rank, 4, 256, 3, 130);
c04_mixed!(c04_mixed_sel1_d1_l200_l130, quick, 70, dim1, check_select1, 4, 200, 3, 130);
c04_mixed!(c04_t_mixed_sel1_d0_l300_l130, thorough, 70, dim0, check_select1, 5, 300, 3, 130);

// ------------------------------------------------------------------------------------------ sparse (few) and trivial

trait FewBuild: RankSelectOps + Sized {
    const ONE: bool;
    fn build(pos: Vec<u32>, size: usize) -> zipora::Result<Self>;
}
impl FewBuild for RankSelectFewOne {
    const ONE: bool = true;
    fn build(pos: Vec<u32>, size: usize) -> zipora::Result<Self> {
        RankSelectFewOne::new(pos, size)
    }
}
impl FewBuild for RankSelectFewZero {
    const ONE: bool = false;
    fn build(pos: Vec<u32>, size: usize) -> zipora::Result<Self> {
        RankSelectFewZero::new(pos, size)
    }
}

/// definition of the sparse string: bit i has the pivot value iff i is listed
struct FewDef<const NP: usize> {
    pos: [u32; NP],
    size: usize,
    one: bool,
}
impl<const NP: usize> FewDef<NP> {
    fn listed_below(&self, p: usize) -> usize {
        let mut c = 0;
        let mut j = 0;
        while j < NP {
            if (self.pos[j] as usize) < p {
                c += 1;
            }
            j += 1;
        }
        c
    }
    fn bit(&self, p: usize) -> bool {
        let mut j = 0;
        let mut f = false;
        while j < NP {
            if self.pos[j] as usize == p {
                f = true;
            }
            j += 1;
        }
        f == self.one
    }
    fn ones_below(&self, p: usize) -> usize {
        if self.one {
            self.listed_below(p)
        } else {
            p - self.listed_below(p)
        }
    }
    fn ones(&self) -> usize {
        if self.one {
            NP
        } else {
            self.size - NP
        }
    }
}

/// NP symbolic pivot positions and a symbolic size <= MAXSIZE; the real constructor's validation decides.
/// Returns the structure when the positions are strictly increasing and in range.
fn few_build<const NP: usize, R: FewBuild, const MAXSIZE: usize>() -> (R, FewDef<NP>) {
    let size: usize = vany();
    assume(size <= MAXSIZE);
    let pos: [u32; NP] = vany();
    let mut valid = true;
    let mut i = 0;
    while i < NP {
        if pos[i] as usize >= size || (i > 0 && pos[i] <= pos[i - 1]) {
            valid = false;
        }
        i += 1;
    }
    let r = R::build(pos.to_vec(), size);
    match r {
        Err(e) => {
            assert!(!valid, "Few*::new refused sorted in-range positions");
            forget(e);
            assume(false);
            unreachable!()
        }
        Ok(rs) => {
            assert!(valid, "Few*::new accepted unsorted or out-of-range positions");
            let d = FewDef { pos, size, one: R::ONE };
            assert!(rs.len() == size && rs.count_ones() == d.ones() && rs.count_zeros() == size - d.ones());
            (rs, d)
        }
    }
}
fn few_rank<const NP: usize, R: FewBuild, const MAXSIZE: usize>() {
    let (rs, d) = few_build::<NP, R, MAXSIZE>();
    let p: usize = vany();
    assume(p <= d.size);
    assert!(rs.rank1(p) == d.ones_below(p), "rank1");
    assert!(rs.rank0(p) == p - d.ones_below(p), "rank0");
    if p < d.size {
        assert!(rs.get(p) == Some(d.bit(p)), "get");
    } else {
        assert!(rs.get(p).is_none());
    }
    zcover!(p == d.size && d.size > NP, "p == len");
    zcover!(p < d.size && d.ones_below(p) > 0 && d.ones_below(p) < p, "mixed prefix");
    forget(rs);
}
fn few_sel1<const NP: usize, R: FewBuild, const MAXSIZE: usize>() {
    let (rs, d) = few_build::<NP, R, MAXSIZE>();
    let k: usize = vany();
    let r = rs.select1(k);
    match &r {
        Ok(x) => assert!(k < d.ones() && *x < d.size && d.bit(*x) && d.ones_below(*x) == k, "select1"),
        Err(_) => assert!(k >= d.ones(), "select1 refused a valid k"),
    }
    zcover!(r.is_ok() && k > 0, "select1 answered");
    zcover!(r.is_err(), "select1 refused");
    forget(r);
    forget(rs);
}
fn few_sel0<const NP: usize, R: FewBuild, const MAXSIZE: usize>() {
    let (rs, d) = few_build::<NP, R, MAXSIZE>();
    let k: usize = vany();
    let zeros = d.size - d.ones();
    let r = rs.select0(k);
    match &r {
        Ok(x) => assert!(k < zeros && *x < d.size && !d.bit(*x) && *x - d.ones_below(*x) == k, "select0"),
        Err(_) => assert!(k >= zeros, "select0 refused a valid k"),
    }
    zcover!(r.is_ok() && k > 0, "select0 answered");
    zcover!(r.is_err(), "select0 refused");
    forget(r);
    forget(rs);
}

macro_rules! c04_few {
    ($name:ident, $tier:ident, $unwind:literal, $f:path) => {
        zv_harness! {
            name: $name,
            prop: "C04",
            tier: $tier,
            unwind: $unwind,
            stubs: [alloc::fmt::format => crate::common::stubs::fmt_format],
            targets: "RankSelectFewOne::new / RankSelectFewZero::new + RankSelectOps of the result (instance: few_rank = len,count_ones,rank1,rank0,get; few_sel1 = select1; few_sel0 = select0; generic args: pivot count NP, structure, MAXSIZE)",
            bounds: "symbolic size <= MAXSIZE (last generic arg), NP symbolic u32 pivot positions (the constructor's validation decides accept/refuse; refused inputs end the path after checking the refusal was justified), every p <= size / every k",
            oracle: "new() is Ok iff positions strictly increasing and < size; bit i has the pivot value iff i is listed; rank = count of listed positions below p (or its complement); select by its defining property",
            body: { $f() }
        }
    };
}
c04_few!(c04_few_one_rank_np3, quick, 10, few_rank::<3, RankSelectFewOne, 70>);
c04_few!(c04_few_one_sel0_np3, quick, 10, few_sel0::<3, RankSelectFewOne, 70>);
c04_few!(c04_few_one_sel1_np3, quick, 10, few_sel1::<3, RankSelectFewOne, 70>);
c04_few!(c04_few_zero_rank_np3, quick, 10, few_rank::<3, RankSelectFewZero, 70>);
c04_few!(c04_few_zero_sel1_np3, quick, 10, few_sel1::<3, RankSelectFewZero, 70>);
c04_few!(c04_few_zero_sel0_np3, quick, 10, few_sel0::<3, RankSelectFewZero, 70>);
c04_few!(c04_t_few_one_sel0_np5, probe, 14, few_sel0::<5, RankSelectFewOne, 1000>);
c04_few!(c04_t_few_zero_sel1_np5, thorough, 14, few_sel1::<5, RankSelectFewZero, 1000>);

zv_harness! {
    name: c04_few_from_bitvector_l20,
    prop: "C04",
    tier: probe,
    unwind: 24,
    stubs: [alloc::fmt::format => crate::common::stubs::fmt_format,
            std::arch::x86_64::__cpuid_count => crate::common::stubs::cpuid_zero],
    targets: "RankSelectFewOne::from_bitvector, RankSelectFewZero::from_bitvector + rank1/select1/select0/get",
    bounds: "every 20-bit string (one symbolic word), every p <= 20 and every k",
    oracle: "popcount-prefix definition over the word",
    body: {
        let (raw, s) = Seq::<1>::make(20, 0, ALL, 9, NONE, 0);
        let bv = s.bitvector(raw);
        let a = unwrap_rs(RankSelectFewOne::from_bitvector(&bv));
        let b = unwrap_rs(RankSelectFewZero::from_bitvector(&bv));
        check_rank(&a, &s);
        check_rank(&b, &s);
        check_select1(&b, &s);
        check_select0(&a, &s);
        forget(a);
        forget(b);
        forget(bv);
    }
}

zv_harness! {
    name: c04_trivial_allzero_allone,
    prop: "C04",
    tier: quick,
    unwind: 4,
    stubs: [alloc::fmt::format => crate::common::stubs::fmt_format],
    targets: "RankSelectAllZero::new, RankSelectAllOne::new + RankSelectOps::{len,count_ones,rank1,rank0,select1,select0,get}",
    bounds: "every size in usize, every p <= size, every k",
    oracle: "all-zero: rank1 = 0, rank0 = p, select0(k) = k iff k < size, select1 always Err; all-one mirrored",
    body: {
        let size: usize = vany();
        let p: usize = vany();
        assume(p <= size);
        let k: usize = vany();
        let z = RankSelectAllZero::new(size);
        let o = RankSelectAllOne::new(size);
        assert!(z.len() == size && z.count_ones() == 0 && z.count_zeros() == size);
        assert!(o.len() == size && o.count_ones() == size && o.count_zeros() == 0);
        assert!(z.rank1(p) == 0 && z.rank0(p) == p && o.rank1(p) == p && o.rank0(p) == 0);
        assert!(z.get(p) == (if p < size { Some(false) } else { None }));
        assert!(o.get(p) == (if p < size { Some(true) } else { None }));
        let (z1, z0, o1, o0) = (z.select1(k), z.select0(k), o.select1(k), o.select0(k));
        assert!(z1.is_err() && o0.is_err());
        match &z0 { Ok(x) => assert!(k < size && *x == k), Err(_) => assert!(k >= size) }
        match &o1 { Ok(x) => assert!(k < size && *x == k), Err(_) => assert!(k >= size) }
        zcover!(p == size && size > 0, "p == len");
        zcover!(z0.is_ok() && o1.is_ok(), "answered");
        zcover!(z0.is_err(), "refused");
        forget(z1); forget(z0); forget(o1); forget(o0);
    }
}

// ------------------------------------------------------------------------------------------ free bulk entry points (succinct::rank_select::simd)

use zipora::succinct::rank_select::{bulk_popcount_simd, bulk_rank1_simd, bulk_select1_simd};

/// bulk_rank1_simd over raw words: the bit string is all 64*NW bits of `words`.
fn bulk_rank_case<const NW: usize>(include_len: bool) {
    let (raw, s) = Seq::<NW>::make(64 * NW, 0, ALL, NW - 1, ALL, MIX);
    let p: usize = vany();
    if include_len {
        assume(p <= s.len);
    } else {
        assume(p < s.len);
    }
    let out = bulk_rank1_simd(&raw, &[p, 0]);
    assert!(out.len() == 2, "one result per position");
    assert!(out[0] == s.rank1(p), "bulk_rank1_simd(p) != number of ones before p");
    assert!(out[1] == 0, "rank1(0) != 0");
    let pc = bulk_popcount_simd(&raw);
    assert!(pc.len() == NW);
    let mut i = 0;
    while i < NW {
        assert!(pc[i] == raw[i].count_ones() as usize, "bulk_popcount_simd");
        i += 1;
    }
    zcover!(p % 64 == 0 && p > 0, "word boundary");
    zcover!(p + 1 == s.len || p == s.len, "last position");
    forget(out);
    forget(pc);
}
fn bulk_rank_interior<const NW: usize>() {
    bulk_rank_case::<NW>(false)
}
fn bulk_rank_upto_len<const NW: usize>() {
    bulk_rank_case::<NW>(true)
}
fn bulk_select_case<const NW: usize>() {
    let (raw, s) = Seq::<NW>::make(64 * NW, 0, ALL, NW - 1, ALL, MIX);
    let k: usize = vany();
    let ones = s.ones();
    let r = bulk_select1_simd(&raw, &[k]);
    match &r {
        Ok(v) => {
            assert!(k < ones, "bulk_select1_simd must fail for k >= ones");
            assert!(v.len() == 1, "one result per index");
            assert!(v[0] < s.len && s.bit(v[0]) && s.rank1(v[0]) == k, "bulk_select1_simd(k) is not the k-th one");
        }
        Err(_) => assert!(k >= ones, "bulk_select1_simd refused a valid k"),
    }
    zcover!(r.is_ok() && k > 0, "answered, not the first one");
    zcover!(r.is_err(), "refused");
    forget(r);
}

macro_rules! c04_bulk {
    ($name:ident, $tier:ident, $unwind:literal, $cpu:path, $f:path) => {
        zv_harness! {
            name: $name,
            prop: "C04",
            tier: $tier,
            unwind: $unwind,
            stubs: [alloc::fmt::format => crate::common::stubs::fmt_format,
                    std::arch::x86_64::__cpuid_count => crate::common::stubs::cpuid_zero,
                    zipora::system::cpu_features::get_cpu_features => $cpu,
                    std::arch::x86_64::_pdep_u64 => crate::c04_rankselect::isa_pdep64],
            targets: "succinct::rank_select::simd::{bulk_rank1_simd, bulk_popcount_simd, bulk_select1_simd} and SimdCapabilities::{get, detect, determine_optimization_strategy}; tier = get_cpu_features replacement of the instance: cpu_none -> tier 0 bulk_*_scalar; cpu_bmi2 (POPCNT+BMI2, no AVX2) -> tier 3: bulk_rank1_popcnt / bulk_popcount_popcnt / bulk_select1_bmi2 with the SDM model of PDEP",
            bounds: "raw bit data of NW words (generic arg), first and last word symbolic, filler 0x84211248F00F3C5A; bulk_rank_interior: every p < 64*NW; bulk_rank_upto_len: every p <= 64*NW; bulk_select_case: every k",
            oracle: "rank = popcount-prefix loop; select(k) is Ok([r]) iff k < ones with bit r set and exactly k ones before r",
            body: { crate::common::stubs::native_tier($cpu); $f() }
        }
    };
}
c04_bulk!(c04_bulk_rank_interior_scalar, quick, 8, crate::c04_rankselect::cpu_none, bulk_rank_interior::<2>);
c04_bulk!(c04_bulk_rank_uptolen_scalar, quick, 8, crate::c04_rankselect::cpu_none, bulk_rank_upto_len::<2>);
c04_bulk!(c04_bulk_rank_interior_bmi2, quick, 8, crate::c04_rankselect::cpu_bmi2, bulk_rank_interior::<2>);
c04_bulk!(c04_bulk_select_scalar, quick, 70, crate::c04_rankselect::cpu_none, bulk_select_case::<2>);
c04_bulk!(c04_t_bulk_select_bmi2_w1, probe, 70, crate::c04_rankselect::cpu_bmi2, bulk_select_case::<1>);
c04_bulk!(c04_t_bulk_select_bmi2_w2, probe, 70, crate::c04_rankselect::cpu_bmi2, bulk_select_case::<2>);

// ------------------------------------------------------------------------------------------ adaptive (forwards to the interleaved structure after profiling the data)

use zipora::succinct::rank_select::AdaptiveRankSelect;

macro_rules! c04_adaptive {
    ($name:ident, $tier:ident, $unwind:literal, $check:path, $len:literal, $m0:expr) => {
        zv_harness! {
            name: $name,
            prop: "C04",
            tier: $tier,
            unwind: $unwind,
            stubs: [alloc::fmt::format => crate::common::stubs::fmt_format,
                    std::arch::x86_64::__cpuid_count => crate::common::stubs::cpuid_zero,
                    zipora::system::cpu_features::get_cpu_features => crate::c04_rankselect::cpu_none],
            targets: "AdaptiveRankSelect::new (analyze_data: run lengths, complexity, clustering, entropy; select_implementation) + forwarded RankSelectOps methods of the check",
            bounds: "one-word bit string of concrete length L with the symbolic bits of mask M0 (args: check, L, M0), filler zero; every p <= L / every k; scalar tier",
            oracle: "same definition-level checks as for the plain structures (the data profile must not change any answer)",
            body: {
                crate::common::stubs::native_tier(crate::c04_rankselect::cpu_none);
                let (raw, s) = Seq::<1>::make($len, 0, $m0, 9, NONE, 0);
                let bv = s.bitvector(raw);
                let rs = unwrap_rs(AdaptiveRankSelect::new(bv));
                $check(&rs, &s);
                forget(rs);
            }
        }
    };
}
c04_adaptive!(c04_t_adaptive_rank_l12, probe, 16, check_rank, 12, 0xFFFu64);
c04_adaptive!(c04_t_adaptive_sel1_l12, probe, 70, check_select1, 12, 0xFFFu64);

//! C14 — accelerated code paths compute the same function as the scalar definition.
//!
//! Tier handling. Kani has no model of CPUID nor of the x86 vector intrinsics, so every harness
//! states which tier it covers:
//!   * `scalar`  — `get_cpu_features` replaced by `cpu_none` (real `CpuFeatures` record, all flags
//!     false) and `__cpuid_count` by all-zero (`is_x86_feature_detected!` false): the portable
//!     fallbacks run.
//!   * `bmi2`    — `get_cpu_features` replaced by `cpu_bmi2` (POPCNT, LZCNT, BMI1, BMI2, SSE4.1/4.2
//!     true, no AVX2) resp. `__cpuid_count` by `cpuid_bmi2`; the scalar-register intrinsics without
//!     a Rust body (`_pdep/_pext_u32/u64`, `_bzhi_u32/u64`, `_bextr_u64`, `_mm_crc32_u8/16/32/64`)
//!     are replaced by bit-loop transcriptions of the Intel SDM pseudo code (module `isa`; they are
//!     the trusted base of these harnesses). `_popcnt*`, `_tzcnt*`, `_lzcnt*`, `_blsr/_blsi/_blsmsk`
//!     have plain Rust bodies in stdarch and are executed as they are.
//!   * `anytier` — for inputs shorter than one vector register the AVX2/SSE tiers of
//!     `Utf8Validator` / `SimdMemOps` reach only their scalar tails; the tier flags are symbolic
//!     (harness-drawn booleans read by the `cpu_sym` stub) so every x86 dispatch arm is taken.
//! Vector kernels proper (>= 16/32/64 bytes) are only attempted in the thorough tier.
use crate::common::*;
use zipora::system::CpuFeatures;

// ------------------------------------------------------------------------------------------ stubs

const fn features(scalar_ext: bool, sse41: bool, sse42: bool, avx2: bool) -> CpuFeatures {
    CpuFeatures {
        has_sse41: sse41,
        has_sse42: sse42,
        has_avx: false,
        has_avx2: avx2,
        has_avx512f: false,
        has_avx512vl: false,
        has_avx512bw: false,
        has_avx512vpopcntdq: false,
        has_bmi1: scalar_ext,
        has_bmi2: scalar_ext,
        has_popcnt: scalar_ext,
        has_lzcnt: scalar_ext,
        has_tzcnt: scalar_ext,
        has_prefetchw: false,
        has_neon: false,
        has_crc32: false,
        has_crypto: false,
        has_sve: false,
        has_sve2: false,
        l1_cache_size: 32 * 1024,
        l2_cache_size: 256 * 1024,
        l3_cache_size: 8 * 1024 * 1024,
        cache_line_size: 64,
        logical_cores: 1,
        physical_cores: 1,
        vendor: String::new(),
        model: String::new(),
        optimization_tier: if scalar_ext { 3 } else { 1 },
        simd_tier: if scalar_ext { 1 } else { 0 },
    }
}

static CPU_NONE: CpuFeatures = features(false, false, false, false);
static CPU_BMI2: CpuFeatures = features(true, true, true, false);
static CPU_SSE41: CpuFeatures = features(false, true, false, false);
static CPU_SSE42: CpuFeatures = features(false, true, true, false);
static CPU_AVX2: CpuFeatures = features(false, true, true, true);

/// SSE4.1 only (Utf8Validator picks its SSE2 kernel).
pub fn cpu_sse41() -> &'static CpuFeatures {
    &CPU_SSE41
}
/// SSE4.1 + SSE4.2 (SimdMemOps picks its SSE2 kernels, Utf8Validator its SSE4.2 kernel).
pub fn cpu_sse42() -> &'static CpuFeatures {
    &CPU_SSE42
}
/// AVX2 (+SSE4.x): the 32-byte kernels.
pub fn cpu_avx2() -> &'static CpuFeatures {
    &CPU_AVX2
}

/// `get_cpu_features` on a CPU without optional features (scalar tier).
pub fn cpu_none() -> &'static CpuFeatures {
    &CPU_NONE
}
/// `get_cpu_features` on a CPU with POPCNT/LZCNT/BMI1/BMI2/SSE4.2 and no AVX2.
pub fn cpu_bmi2() -> &'static CpuFeatures {
    &CPU_BMI2
}

/// tier flags chosen by the harness (symbolic), read by `cpu_sym`: [sse41, sse42, avx2]
static mut SYM_FLAGS: [bool; 3] = [false; 3];
/// `get_cpu_features` with harness-chosen SSE4.1/SSE4.2/AVX2 flags (no AVX-512).
pub fn cpu_sym() -> &'static CpuFeatures {
    let f = unsafe { SYM_FLAGS };
    Box::leak(Box::new(features(false, f[0], f[1], f[2])))
}
fn choose_tier_flags() -> [bool; 3] {
    let f: [bool; 3] = [vany(), vany(), vany()];
    unsafe {
        SYM_FLAGS = f;
    }
    crate::common::stubs::native_tier(cpu_sym);
    f
}

/// `__cpuid_count` of a CPU that reports POPCNT, LZCNT(ABM), BMI1, BMI2 (and nothing that needs
/// OS-enabled state): leaf 0 max=7, leaf 1 ecx[23]=POPCNT, leaf 7.0 ebx[3]=BMI1 ebx[8]=BMI2,
/// leaf 0x8000_0000 max ext=0x8000_0001, leaf 0x8000_0001 ecx[5]=LZCNT.
#[cfg(target_arch = "x86_64")]
pub fn cpuid_bmi2(leaf: u32, sub: u32) -> std::arch::x86_64::CpuidResult {
    let mut r = std::arch::x86_64::CpuidResult { eax: 0, ebx: 0, ecx: 0, edx: 0 };
    if leaf == 0 {
        r.eax = 7;
    } else if leaf == 1 {
        r.ecx = 1 << 23;
    } else if leaf == 7 && sub == 0 {
        r.ebx = (1 << 3) | (1 << 8);
    } else if leaf == 0x8000_0000 {
        r.eax = 0x8000_0001;
    } else if leaf == 0x8000_0001 {
        r.ecx = 1 << 5;
    }
    r
}

/// Bit-loop transcriptions of the Intel SDM pseudo code of the scalar-register instructions that
/// stdarch implements through LLVM-intrinsic FFI (no body for Kani).
pub mod isa {
    pub fn pdep64(src: u64, mask: u64) -> u64 {
        let mut res = 0u64;
        let mut k = 0u32;
        let mut m = 0u32;
        while m < 64 {
            if (mask >> m) & 1 == 1 {
                if (src >> k) & 1 == 1 {
                    res |= 1u64 << m;
                }
                k += 1;
            }
            m += 1;
        }
        res
    }
    pub fn pext64(src: u64, mask: u64) -> u64 {
        let mut res = 0u64;
        let mut k = 0u32;
        let mut m = 0u32;
        while m < 64 {
            if (mask >> m) & 1 == 1 {
                if (src >> m) & 1 == 1 {
                    res |= 1u64 << k;
                }
                k += 1;
            }
            m += 1;
        }
        res
    }
    pub fn pdep32(src: u32, mask: u32) -> u32 {
        pdep64(src as u64, mask as u64) as u32
    }
    pub fn pext32(src: u32, mask: u32) -> u32 {
        pext64(src as u64, mask as u64) as u32
    }
    /// BZHI: N = index[7:0]; bits [63:N] cleared when N < 64, else unchanged.
    pub fn bzhi64(src: u64, index: u32) -> u64 {
        let n = index & 0xff;
        if n >= 64 {
            src
        } else {
            src & ((1u64 << n) - 1)
        }
    }
    pub fn bzhi32(src: u32, index: u32) -> u32 {
        let n = index & 0xff;
        if n >= 32 {
            src
        } else {
            src & ((1u32 << n) - 1)
        }
    }
    /// BEXTR via stdarch `_bextr_u64(a, start, len)`: START = start[7:0], LEN = len[7:0].
    pub fn bextr64(src: u64, start: u32, len: u32) -> u64 {
        let s = start & 0xff;
        let l = len & 0xff;
        if s >= 64 {
            return 0;
        }
        let t = src >> s;
        if l >= 64 {
            t
        } else {
            t & ((1u64 << l) - 1)
        }
    }
    /// CRC32 instruction (polynomial 0x11EDC6F41, bit-reflected): one byte.
    pub fn crc32_u8(crc: u32, v: u8) -> u32 {
        let mut c = crc ^ (v as u32);
        let mut i = 0;
        while i < 8 {
            c = if c & 1 != 0 { (c >> 1) ^ 0x82F6_3B78 } else { c >> 1 };
            i += 1;
        }
        c
    }
    pub fn crc32_u16(crc: u32, v: u16) -> u32 {
        crc32_u8(crc32_u8(crc, v as u8), (v >> 8) as u8)
    }
    pub fn crc32_u32(crc: u32, v: u32) -> u32 {
        crc32_u16(crc32_u16(crc, v as u16), (v >> 16) as u16)
    }
    pub fn crc32_u64(crc: u64, v: u64) -> u64 {
        crc32_u32(crc32_u32(crc as u32, v as u32), (v >> 32) as u32) as u64
    }
}

// ------------------------------------------------------------------------------------------ definitions (oracles)

fn def_popcount(x: u64) -> u32 {
    let mut c = 0;
    let mut i = 0;
    while i < 64 {
        c += ((x >> i) & 1) as u32;
        i += 1;
    }
    c
}
fn def_tz(x: u64, width: u32) -> u32 {
    let mut i = 0;
    while i < width {
        if (x >> i) & 1 == 1 {
            return i;
        }
        i += 1;
    }
    width
}
fn def_lz64(x: u64) -> u32 {
    let mut i = 0;
    while i < 64 {
        if (x >> (63 - i)) & 1 == 1 {
            return i;
        }
        i += 1;
    }
    64
}
fn def_reverse(x: u64, width: u32) -> u64 {
    let mut r = 0u64;
    let mut i = 0;
    while i < width {
        if (x >> i) & 1 == 1 {
            r |= 1u64 << (width - 1 - i);
        }
        i += 1;
    }
    r
}
fn def_low_bits(x: u64, n: u32) -> u64 {
    if n >= 64 {
        x
    } else {
        x & ((1u64 << n) - 1)
    }
}
/// r is the position of the k-th (0-based) one of x  <=>  bit r set and exactly k ones below r
fn is_kth_one(x: u64, k: u32, r: u32) -> bool {
    r < 64 && (x >> r) & 1 == 1 && def_popcount(def_low_bits(x, r)) == k
}

// ------------------------------------------------------------------------------------------ entropy::bit_ops

use zipora::entropy::bit_ops::{BitOps, EntropyBitOps};

fn bitops_count() {
    let ops = BitOps::new();
    let x: u64 = vany();
    let y = x as u32;
    let n: u32 = vany();
    assert!(ops.popcount64(x) == def_popcount(x), "popcount64");
    assert!(ops.popcount32(y) == def_popcount(y as u64), "popcount32");
    assert!(ops.trailing_zeros64(x) == def_tz(x, 64), "trailing_zeros64");
    assert!(ops.trailing_zeros32(y) == def_tz(y as u64, 32), "trailing_zeros32");
    assert!(ops.reverse_bits64(x) == def_reverse(x, 64), "reverse_bits64");
    assert!(ops.bit_reverse_bmi2(x) == def_reverse(x, 64), "bit_reverse_bmi2");
    assert!(ops.reverse_bits32(y) as u64 == def_reverse(y as u64, 32), "reverse_bits32");
    zcover!(x != 0 && y != 0, "non-zero word");
    zcover!(x == 0, "zero word");
    forget(ops);
}

/// zero_high_bits: "clear high bits above the specified position"; index >= width keeps the word.
fn bitops_bzhi(max_index: u32) {
    let ops = BitOps::new();
    let x: u64 = vany();
    let y = x as u32;
    let n: u32 = vany();
    assume(n <= max_index);
    assert!(ops.zero_high_bits64(x, n) == (if n >= 64 { x } else { def_low_bits(x, n) }), "zero_high_bits64");
    assert!(ops.zero_high_bits32(y, n) == (if n >= 32 { y } else { def_low_bits(y as u64, n) as u32 }), "zero_high_bits32");
    zcover!(x != 0 && n > 0 && n < 32, "interior index");
    zcover!(n >= 64, "index beyond the word");
    forget(ops);
}
fn bitops_bzhi_byte() {
    bitops_bzhi(255)
}
fn bitops_bzhi_any() {
    bitops_bzhi(u32::MAX)
}

fn bitops_entropy_reverse() {
    let e = EntropyBitOps::new();
    let y: u32 = vany();
    assert!(e.reverse_bits32(y) as u64 == def_reverse(y as u64, 32), "EntropyBitOps::reverse_bits32");
    zcover!(y != 0 && y != u32::MAX, "mixed word");
    forget(e);
}

fn bitops_pdep64() {
    let ops = BitOps::new();
    let s: u64 = vany();
    let m: u64 = vany();
    assert!(ops.parallel_deposit64(s, m) == isa::pdep64(s, m), "parallel_deposit64 != PDEP definition");
    assert!(ops.pdep_u64(s, m) == isa::pdep64(s, m), "pdep_u64");
    zcover!(m != 0 && m != u64::MAX && s != 0, "non-trivial mask");
    forget(ops);
}
fn bitops_pext64() {
    let ops = BitOps::new();
    let s: u64 = vany();
    let m: u64 = vany();
    assert!(ops.parallel_extract64(s, m) == isa::pext64(s, m), "parallel_extract64 != PEXT definition");
    assert!(ops.decode_rans_symbols_bmi2(s, m) == isa::pext64(s, m) as u32, "decode_rans_symbols_bmi2");
    zcover!(m != 0 && m != u64::MAX && s != 0, "non-trivial mask");
    forget(ops);
}
fn bitops_pdep_pext32() {
    let ops = BitOps::new();
    let s: u32 = vany();
    let m: u32 = vany();
    assert!(ops.parallel_deposit32(s, m) == isa::pdep32(s, m), "parallel_deposit32 != PDEP definition");
    assert!(ops.parallel_extract32(s, m) == isa::pext32(s, m), "parallel_extract32 != PEXT definition");
    let lo: u32 = vany();
    let hi: u32 = vany();
    let want = isa::pdep64(lo as u64, 0x5555_5555_5555_5555) | isa::pdep64(hi as u64, 0xAAAA_AAAA_AAAA_AAAA);
    assert!(ops.bit_interleaving_bmi2(lo, hi) == want, "bit_interleaving_bmi2");
    zcover!(m != 0 && m != u32::MAX && s != 0, "non-trivial mask");
    forget(ops);
}
fn bitops_select() {
    let ops = BitOps::new();
    let x: u64 = vany();
    let k: u32 = vany();
    let r = ops.select_bit64(x, k);
    match r {
        Some(p) => assert!(k < def_popcount(x) && is_kth_one(x, k, p), "select_bit64 wrong position"),
        None => assert!(k >= def_popcount(x), "select_bit64 refused a valid k"),
    }
    let y = x as u32;
    let r32 = ops.select_bit32(y, k);
    match r32 {
        Some(p) => assert!(p < 32 && k < def_popcount(y as u64) && is_kth_one(y as u64, k, p), "select_bit32 wrong position"),
        None => assert!(k >= def_popcount(y as u64), "select_bit32 refused a valid k"),
    }
    zcover!(r.is_some() && k > 0, "select answered with k > 0");
    zcover!(r.is_none() && x != 0, "select refused on non-zero word");
    forget(ops);
}

macro_rules! c14_bitops {
    ($name:ident, $tier:ident, $unwind:literal, $cpu:path, $f:path) => {
        zv_harness! {
            name: $name,
            prop: "C14",
            tier: $tier,
            unwind: $unwind,
            stubs: [alloc::fmt::format => crate::common::stubs::fmt_format,
                    zipora::system::cpu_features::get_cpu_features => $cpu,
                    std::arch::x86_64::__cpuid_count => crate::common::stubs::cpuid_zero,
                    std::arch::x86_64::_pdep_u64 => crate::c14_accel::isa::pdep64,
                    std::arch::x86_64::_pext_u64 => crate::c14_accel::isa::pext64,
                    std::arch::x86_64::_pdep_u32 => crate::c14_accel::isa::pdep32,
                    std::arch::x86_64::_pext_u32 => crate::c14_accel::isa::pext32,
                    std::arch::x86_64::_bzhi_u64 => crate::c14_accel::isa::bzhi64,
                    std::arch::x86_64::_bzhi_u32 => crate::c14_accel::isa::bzhi32],
            targets: "entropy::bit_ops::BitOps::new (default config) / EntropyBitOps::new and the operations named by the instance function (bitops_count: popcount32/64, trailing_zeros32/64, reverse_bits32/64, bit_reverse_bmi2; bitops_bzhi_byte / bitops_bzhi_any: zero_high_bits32/64 with index <= 255 / any u32 index; bitops_pdep64: parallel_deposit64, pdep_u64; bitops_pext64: parallel_extract64, decode_rans_symbols_bmi2; bitops_pdep_pext32: parallel_deposit32, parallel_extract32, bit_interleaving_bmi2; bitops_select: select_bit64/32; bitops_entropy_reverse: EntropyBitOps::reverse_bits32). Tier = the get_cpu_features replacement of the instance: cpu_none -> software fallbacks; cpu_bmi2 -> hardware branches with SDM models of PDEP/PEXT/BZHI",
            bounds: "every u64/u32 operand, mask, index and k",
            oracle: "bit-loop definitions written in the harness (popcount, count trailing zeros, bit reversal, low-bit mask, SDM PDEP/PEXT; select: Some(r) iff k < popcount and then bit r set with exactly k ones below)",
            body: { crate::common::stubs::native_tier($cpu); $f() }
        }
    };
}

c14_bitops!(c14_bitops_count_scalar, quick, 70, crate::c14_accel::cpu_none, bitops_count);
c14_bitops!(c14_bitops_count_bmi2, quick, 70, crate::c14_accel::cpu_bmi2, bitops_count);
c14_bitops!(c14_bitops_bzhi_byte_scalar, quick, 70, crate::c14_accel::cpu_none, bitops_bzhi_byte);
c14_bitops!(c14_bitops_bzhi_byte_bmi2, quick, 70, crate::c14_accel::cpu_bmi2, bitops_bzhi_byte);
c14_bitops!(c14_bitops_bzhi_any_bmi2, quick, 70, crate::c14_accel::cpu_bmi2, bitops_bzhi_any);
c14_bitops!(c14_bitops_pdep64_scalar, quick, 70, crate::c14_accel::cpu_none, bitops_pdep64);
c14_bitops!(c14_bitops_pext64_scalar, quick, 70, crate::c14_accel::cpu_none, bitops_pext64);
c14_bitops!(c14_bitops_pdpx32_scalar, quick, 70, crate::c14_accel::cpu_none, bitops_pdep_pext32);
c14_bitops!(c14_bitops_pdpx32_bmi2, quick, 70, crate::c14_accel::cpu_bmi2, bitops_pdep_pext32);
c14_bitops!(c14_bitops_select_scalar, quick, 70, crate::c14_accel::cpu_none, bitops_select);
c14_bitops!(c14_bitops_select_bmi2, quick, 70, crate::c14_accel::cpu_bmi2, bitops_select);
c14_bitops!(c14_bitops_erev32_scalar, quick, 70, crate::c14_accel::cpu_none, bitops_entropy_reverse);
c14_bitops!(c14_bitops_erev32_bmi2, quick, 70, crate::c14_accel::cpu_bmi2, bitops_entropy_reverse);

// ------------------------------------------------------------------------------------------ succinct::rank_select::bmi2_acceleration

use zipora::succinct::rank_select::bmi2_acceleration::{
    Bmi2AdvancedPatterns, Bmi2BextrOps, Bmi2BitOps, Bmi2BzhiOps, Bmi2RangeOps, Bmi2RankOps, Bmi2SelectOps,
};

fn bmi2a_rank() {
    let x: u64 = vany();
    let n: u32 = vany();
    assert!(Bmi2RankOps::popcount_u64(x) == def_popcount(x), "popcount_u64");
    assert!(Bmi2RankOps::popcount_trail(x, n) == def_popcount(def_low_bits(x, n)), "popcount_trail");
    assert!(Bmi2BzhiOps::popcount_bzhi_enhanced(x, n) == def_popcount(def_low_bits(x, n)), "popcount_bzhi_enhanced");
    assert!(Bmi2RankOps::leading_zeros(x) == def_lz64(x), "leading_zeros");
    assert!(Bmi2RankOps::trailing_zeros(x) == def_tz(x, 64), "trailing_zeros");
    assert!(Bmi2BitOps::reset_lowest_bit(x) == (if x == 0 { 0 } else { x & !(1u64 << def_tz(x, 64)) }), "reset_lowest_bit");
    assert!(Bmi2BitOps::isolate_lowest_bit(x) == (if x == 0 { 0 } else { 1u64 << def_tz(x, 64) }), "isolate_lowest_bit");
    assert!(
        Bmi2BitOps::mask_up_to_lowest_bit(x) == (if x == 0 { u64::MAX } else { def_low_bits(u64::MAX, def_tz(x, 64) + 1) }),
        "mask_up_to_lowest_bit"
    );
    // count_ones_range(word, start, len): ones in [start, start+len) clipped to the word
    let start: u32 = vany();
    let len: u32 = vany();
    let want = if len == 0 || start >= 64 {
        0
    } else {
        let l = if len > 64 - start { 64 - start } else { len };
        def_popcount(def_low_bits(x >> start, l))
    };
    assert!(Bmi2RangeOps::count_ones_range(x, start, len) == want, "count_ones_range");
    // extract_bits_bextr(src, start, len): len bits from start, clipped to the word
    let wantx = if len == 0 || start >= 64 {
        0
    } else {
        let l = if len > 64 - start { 64 - start } else { len };
        def_low_bits(x >> start, l)
    };
    assert!(Bmi2BextrOps::extract_bits_bextr(x, start, len) == wantx, "extract_bits_bextr");
    zcover!(x != 0 && n > 0 && n < 64 && start > 0 && start < 64 && len > 0 && len < 64, "interior operands");
    zcover!(x == 0, "zero word");
}
fn bmi2a_select1() {
    // warm-up: take the capability OnceLock on an unconditional path (otherwise its state becomes
    // path-dependent and every later get() re-explores the initialisation loop)
    let _ = Bmi2RankOps::popcount_u64(0);
    let x: u64 = vany();
    let k: u32 = vany();
    let ones = def_popcount(x);
    let r = Bmi2SelectOps::select1_u64(x, k);
    match r {
        Some(p) => assert!(k < ones && is_kth_one(x, k, p), "select1_u64 wrong position"),
        None => assert!(k >= ones, "select1_u64 refused a valid k"),
    }
    zcover!(r.is_some() && k > 0, "select answered");
    zcover!(r.is_none() && x != 0, "select refused");
}
fn bmi2a_select0() {
    let _ = Bmi2RankOps::popcount_u64(0);
    let x: u64 = vany();
    let k: u32 = vany();
    let ones = def_popcount(x);
    let z = Bmi2SelectOps::select0_u64(x, k);
    match z {
        Some(p) => assert!(k < 64 - ones && is_kth_one(!x, k, p), "select0_u64 wrong position"),
        None => assert!(k >= 64 - ones, "select0_u64 refused a valid k"),
    }
    zcover!(z.is_some() && k > 0, "select0 answered");
    zcover!(z.is_none() && x != u64::MAX, "select0 refused");
}
/// the other select entry points against their definition
fn bmi2a_select_variants() {
    let _ = Bmi2RankOps::popcount_u64(0);
    let x: u64 = vany();
    let k: u32 = vany();
    let ones = def_popcount(x);
    let r2 = Bmi2SelectOps::select1_u64_enhanced(x, k);
    match r2 {
        Some(p) => assert!(k < ones && is_kth_one(x, k, p), "select1_u64_enhanced wrong position"),
        None => assert!(k >= ones, "select1_u64_enhanced refused a valid k"),
    }
    let r3 = Bmi2AdvancedPatterns::pdep_ctz_select(x, k);
    assert!(r3 == r2, "pdep_ctz_select disagrees with select1_u64_enhanced");
    zcover!(r2.is_some() && k > 0, "select answered");
    zcover!(ones > 8 && r2.is_some(), "dense word (binary-search branch of the enhanced fallback)");
    zcover!(ones <= 8 && r2.is_some() && k > 0, "sparse word (linear branch)");
}
fn bmi2a_pdep(max_lim: u32) {
    // warm-up: take the capability OnceLock on an unconditional path (otherwise its state becomes
    // path-dependent and every later get() re-explores the initialisation loop)
    let _ = Bmi2RankOps::popcount_u64(0);
    let s: u64 = vany();
    let m: u64 = vany();
    assert!(Bmi2BitOps::deposit_bits(s, m) == isa::pdep64(s, m), "deposit_bits != PDEP definition");
    let lim: u32 = vany();
    assume(lim <= max_lim);
    assert!(
        Bmi2AdvancedPatterns::pdep_bzhi_composite(s, m, lim) == (if lim >= 64 { isa::pdep64(s, m) } else { def_low_bits(isa::pdep64(s, m), lim) }),
        "pdep_bzhi_composite"
    );
    zcover!(m != 0 && m != u64::MAX && s != 0 && lim < 64, "non-trivial mask");
    zcover!(lim >= 64, "limit beyond the word");
}
fn bmi2a_pdep_byte() {
    bmi2a_pdep(255)
}
fn bmi2a_pdep_any() {
    bmi2a_pdep(u32::MAX)
}
fn bmi2a_pext() {
    let s: u64 = vany();
    let m: u64 = vany();
    assert!(Bmi2BitOps::extract_bits(s, m) == isa::pext64(s, m), "extract_bits != PEXT definition");
    zcover!(m != 0 && m != u64::MAX && s != 0, "non-trivial mask");
}

macro_rules! c14_bmi2a {
    ($name:ident, $tier:ident, $unwind:literal, $cpu:path, $f:path) => {
        zv_harness! {
            name: $name,
            prop: "C14",
            tier: $tier,
            unwind: $unwind,
            stubs: [alloc::fmt::format => crate::common::stubs::fmt_format,
                    zipora::system::cpu_features::get_cpu_features => $cpu,
                    std::arch::x86_64::__cpuid_count => crate::common::stubs::cpuid_zero,
                    std::arch::x86_64::_pdep_u64 => crate::c14_accel::isa::pdep64,
                    std::arch::x86_64::_pext_u64 => crate::c14_accel::isa::pext64,
                    std::arch::x86_64::_bzhi_u64 => crate::c14_accel::isa::bzhi64,
                    std::arch::x86_64::_bextr_u64 => crate::c14_accel::isa::bextr64],
            targets: "succinct::rank_select::bmi2_acceleration (dispatch through Bmi2Capabilities::get -> SimdCapabilities::detect -> get_cpu_features): bmi2a_rank: Bmi2RankOps::{popcount_u64,popcount_trail,leading_zeros,trailing_zeros}, Bmi2BzhiOps::popcount_bzhi_enhanced, Bmi2BitOps::{reset_lowest_bit,isolate_lowest_bit,mask_up_to_lowest_bit}, Bmi2RangeOps::count_ones_range, Bmi2BextrOps::extract_bits_bextr; bmi2a_select1: Bmi2SelectOps::select1_u64; bmi2a_select0: select0_u64; bmi2a_select_variants: Bmi2SelectOps::select1_u64_enhanced, Bmi2AdvancedPatterns::pdep_ctz_select; bmi2a_pdep_byte / bmi2a_pdep_any: Bmi2BitOps::deposit_bits, Bmi2AdvancedPatterns::pdep_bzhi_composite with bit_limit <= 255 / any u32; bmi2a_pext: Bmi2BitOps::extract_bits. Tier = get_cpu_features replacement of the instance (cpu_none: fallbacks; cpu_bmi2: hardware branches with SDM models of PDEP/PEXT/BZHI/BEXTR)",
            bounds: "every u64 word/mask and every u32 index, start, length, k",
            oracle: "bit-loop definitions in the harness (popcount of the low n bits, leading/trailing zero count, lowest-set-bit identities, SDM PDEP/PEXT, select by its defining property)",
            body: { crate::common::stubs::native_tier($cpu); $f() }
        }
    };
}
c14_bmi2a!(c14_bmi2a_rank_scalar, quick, 70, crate::c14_accel::cpu_none, bmi2a_rank);
c14_bmi2a!(c14_bmi2a_rank_bmi2, quick, 70, crate::c14_accel::cpu_bmi2, bmi2a_rank);
c14_bmi2a!(c14_bmi2a_sel1_scalar, quick, 70, crate::c14_accel::cpu_none, bmi2a_select1);
c14_bmi2a!(c14_bmi2a_sel1_bmi2, quick, 70, crate::c14_accel::cpu_bmi2, bmi2a_select1);
c14_bmi2a!(c14_bmi2a_sel0_scalar, thorough, 70, crate::c14_accel::cpu_none, bmi2a_select0);
c14_bmi2a!(c14_bmi2a_sel0_bmi2, quick, 70, crate::c14_accel::cpu_bmi2, bmi2a_select0);
c14_bmi2a!(c14_bmi2a_selvar_scalar, probe, 70, crate::c14_accel::cpu_none, bmi2a_select_variants);
c14_bmi2a!(c14_bmi2a_selvar_bmi2, thorough, 70, crate::c14_accel::cpu_bmi2, bmi2a_select_variants);
c14_bmi2a!(c14_bmi2a_pdep_any_scalar, quick, 70, crate::c14_accel::cpu_none, bmi2a_pdep_any);
c14_bmi2a!(c14_bmi2a_pdep_byte_bmi2, quick, 70, crate::c14_accel::cpu_bmi2, bmi2a_pdep_byte);
c14_bmi2a!(c14_bmi2a_pdep_any_bmi2, quick, 70, crate::c14_accel::cpu_bmi2, bmi2a_pdep_any);
c14_bmi2a!(c14_bmi2a_pext_scalar, quick, 70, crate::c14_accel::cpu_none, bmi2a_pext);

// ------------------------------------------------------------------------------------------ succinct::rank_select::bmi2_comprehensive

use zipora::succinct::rank_select::bmi2_comprehensive::Bmi2BitOps as CBitOps;

/// rank is 1-based here ("rank-th one"); None when rank == 0 or rank > popcount.
fn bmi2c_select(max_rank: usize) {
    // warm-up: take the capability OnceLock on an unconditional path
    let _ = CBitOps::trailing_zeros_optimized(1);
    let x: u64 = vany();
    let rank: usize = vany();
    assume(rank <= max_rank);
    let ones = def_popcount(x) as usize;
    let r = CBitOps::select1_ultra_fast(x, rank);
    match r {
        Some(p) => assert!(rank >= 1 && rank <= ones && p < 64 && is_kth_one(x, (rank - 1) as u32, p as u32), "select1_ultra_fast wrong position"),
        None => assert!(rank == 0 || rank > ones, "select1_ultra_fast refused a valid rank"),
    }
    let f = CBitOps::select1_fallback(x, rank);
    assert!(f == r, "select1_ultra_fast differs from select1_fallback");
    zcover!(r.is_some() && rank > 1, "answered");
    zcover!(r.is_none() && x != 0 && rank > 0, "refused");
}
fn bmi2c_select_le64() {
    bmi2c_select(64)
}
fn bmi2c_select_any() {
    bmi2c_select(usize::MAX)
}
fn bmi2c_rank() {
    // warm-up: take the capability OnceLock on an unconditional path
    let _ = CBitOps::trailing_zeros_optimized(1);
    let x: u64 = vany();
    let pos: usize = vany();
    let want = if pos >= 64 { def_popcount(x) } else { def_popcount(def_low_bits(x, pos as u32)) };
    assert!(CBitOps::rank1_optimized(x, pos) == want as usize, "rank1_optimized");
    assert!(CBitOps::trailing_zeros_optimized(x) == def_tz(x, 64), "trailing_zeros_optimized");
    assert!(CBitOps::leading_zeros_optimized(x) == def_lz64(x), "leading_zeros_optimized");
    let m: u64 = vany();
    assert!(CBitOps::extract_bits_pext(x, m) == isa::pext64(x, m), "extract_bits_pext != PEXT definition");
    zcover!(x != 0 && pos > 0 && pos < 64 && m != 0, "interior operands");
    zcover!(pos >= 256, "position beyond one byte");
}

macro_rules! c14_bmi2c {
    ($name:ident, $tier:ident, $unwind:literal, $cpuid:path, $f:path) => {
        zv_harness! {
            name: $name,
            prop: "C14",
            tier: $tier,
            unwind: $unwind,
            stubs: [alloc::fmt::format => crate::common::stubs::fmt_format,
                    std::arch::x86_64::__cpuid_count => $cpuid,
                    std::arch::x86_64::_pdep_u64 => crate::c14_accel::isa::pdep64,
                    std::arch::x86_64::_pext_u64 => crate::c14_accel::isa::pext64,
                    std::arch::x86_64::_bzhi_u64 => crate::c14_accel::isa::bzhi64],
            targets: "succinct::rank_select::bmi2_comprehensive::Bmi2BitOps (dispatch through Bmi2Capabilities::get -> is_x86_feature_detected!): bmi2c_select_*: select1_ultra_fast, select1_fallback; bmi2c_rank: rank1_optimized, trailing_zeros_optimized, leading_zeros_optimized, extract_bits_pext. Tier = the __cpuid_count replacement of the instance (cpuid_zero: fallbacks; cpuid_bmi2: POPCNT+LZCNT+BMI1+BMI2 reported, hardware branches with SDM models of PDEP/PEXT/BZHI)",
            bounds: "every u64 word/mask; bmi2c_select_le64: every 1-based rank <= 64; bmi2c_select_any: every usize rank; bmi2c_rank: every usize position",
            oracle: "select: Some(p) iff 1 <= rank <= popcount and then bit p set with exactly rank-1 ones below; hardware path == fallback; rank = popcount of the low pos bits; zero counts and PEXT by bit-loop definition",
            body: { $f() }
        }
    };
}
c14_bmi2c!(c14_bmi2c_select_le64_scalar, quick, 70, crate::common::stubs::cpuid_zero, bmi2c_select_le64);
c14_bmi2c!(c14_bmi2c_select_le64_bmi2, quick, 70, crate::c14_accel::cpuid_bmi2, bmi2c_select_le64);
c14_bmi2c!(c14_bmi2c_select_any_bmi2, quick, 70, crate::c14_accel::cpuid_bmi2, bmi2c_select_any);
c14_bmi2c!(c14_bmi2c_rank_scalar, quick, 70, crate::common::stubs::cpuid_zero, bmi2c_rank);
c14_bmi2c!(c14_bmi2c_rank_bmi2, quick, 70, crate::c14_accel::cpuid_bmi2, bmi2c_rank);

// ------------------------------------------------------------------------------------------ io::simd_validation::checksum (CRC32C)

use zipora::io::simd_validation::checksum::{crc32c, crc32c_finalize, crc32c_hash, crc32c_update};

/// Castagnoli CRC, reflected, bit by bit: running value `crc` updated with `data` (no pre/post inversion).
fn def_crc32c(mut crc: u32, data: &[u8]) -> u32 {
    let mut i = 0;
    while i < data.len() {
        crc ^= data[i] as u32;
        let mut b = 0;
        while b < 8 {
            crc = if crc & 1 != 0 { (crc >> 1) ^ 0x82F6_3B78 } else { crc >> 1 };
            b += 1;
        }
        i += 1;
    }
    crc
}
fn ok_u32(r: zipora::Result<u32>) -> u32 {
    match r {
        Ok(v) => v,
        Err(e) => {
            forget(e);
            panic!("crc32c returned Err");
        }
    }
}
fn crc_case<const N: usize>() {
    let data: [u8; N] = vany();
    let init: u32 = vany();
    let want = def_crc32c(init, &data);
    assert!(ok_u32(crc32c(&data, init)) == want, "crc32c(data, init) != bitwise Castagnoli definition");
    assert!(ok_u32(crc32c_hash(&data)) == !def_crc32c(0xFFFF_FFFF, &data), "crc32c_hash");
    // incremental == one-shot for every split point
    let mut s = 0;
    while s <= N {
        let a = ok_u32(crc32c_update(init, &data[..s]));
        let b = ok_u32(crc32c_update(a, &data[s..]));
        assert!(b == want, "incremental != one-shot");
        assert!(crc32c_finalize(b) == !want, "finalize");
        s += 1;
    }
    zcover!(N == 0 || data[N - 1] >= 0x80, "high byte last");
    zcover!(init != 0 && init != 0xFFFF_FFFF, "arbitrary running value");
}

macro_rules! c14_crc {
    ($name:ident, $tier:ident, $unwind:literal, $cpu:path, $n:literal) => {
        zv_harness! {
            name: $name,
            prop: "C14",
            tier: $tier,
            unwind: $unwind,
            stubs: [alloc::fmt::format => crate::common::stubs::fmt_format,
                    zipora::system::cpu_features::get_cpu_features => $cpu,
                    std::arch::x86_64::_mm_crc32_u8 => crate::c14_accel::isa::crc32_u8,
                    std::arch::x86_64::_mm_crc32_u16 => crate::c14_accel::isa::crc32_u16,
                    std::arch::x86_64::_mm_crc32_u32 => crate::c14_accel::isa::crc32_u32,
                    std::arch::x86_64::_mm_crc32_u64 => crate::c14_accel::isa::crc32_u64],
            targets: "io::simd_validation::checksum::{crc32c, crc32c_hash, crc32c_update, crc32c_finalize, detect_crc32c_impl}; tier = get_cpu_features replacement of the instance: cpu_none -> crc32c_scalar (256-entry table built by the real get_crc32c_table), cpu_bmi2 (has_sse42) -> crc32c_sse42 with SDM models of the CRC32 r32,r/m8/16/32/64 instruction",
            bounds: "every byte string of the concrete length N of the instance (last arg), every initial/running CRC value, every split point 0..=N",
            oracle: "bit-by-bit reflected Castagnoli CRC (poly 0x82F63B78) written in the harness; crc32c_hash == !crc(0xFFFFFFFF, data); update(update(init, a), b) == crc(init, a ++ b)",
            body: { crate::common::stubs::native_tier($cpu); crc_case::<$n>() }
        }
    };
}
c14_crc!(c14_crc32c_scalar_n0, quick, 260, crate::c14_accel::cpu_none, 0);
c14_crc!(c14_crc32c_scalar_n1, quick, 260, crate::c14_accel::cpu_none, 1);
c14_crc!(c14_crc32c_scalar_n2, quick, 260, crate::c14_accel::cpu_none, 2);
c14_crc!(c14_crc32c_scalar_n3, quick, 260, crate::c14_accel::cpu_none, 3);
c14_crc!(c14_crc32c_scalar_n4, thorough, 260, crate::c14_accel::cpu_none, 4);
c14_crc!(c14_crc32c_sse42_n1, quick, 12, crate::c14_accel::cpu_bmi2, 1);
c14_crc!(c14_crc32c_sse42_n3, quick, 12, crate::c14_accel::cpu_bmi2, 3);
c14_crc!(c14_crc32c_sse42_n4, quick, 12, crate::c14_accel::cpu_bmi2, 4);
c14_crc!(c14_crc32c_sse42_n7, thorough, 12, crate::c14_accel::cpu_bmi2, 7);
c14_crc!(c14_crc32c_sse42_n9, thorough, 14, crate::c14_accel::cpu_bmi2, 9);

// ------------------------------------------------------------------------------------------ string::hex

use zipora::string::{
    hex_decode, hex_decode_bytes, hex_decode_to_slice, hex_encode, hex_encode_to_bytes, hex_encode_to_slice,
    hex_encode_upper, is_valid_hex, parse_hex_byte,
};

fn def_hex_digit(v: u8, upper: bool) -> u8 {
    if v < 10 {
        b'0' + v
    } else if upper {
        b'A' + (v - 10)
    } else {
        b'a' + (v - 10)
    }
}
fn def_hex_val(c: u8) -> Option<u8> {
    if c >= b'0' && c <= b'9' {
        Some(c - b'0')
    } else if c >= b'a' && c <= b'f' {
        Some(c - b'a' + 10)
    } else if c >= b'A' && c <= b'F' {
        Some(c - b'A' + 10)
    } else {
        None
    }
}

/// encode side, byte-oriented entry points: N symbolic bytes
fn hex_encode_case<const N: usize, const N2: usize>() {
    let data: [u8; N] = vany();
    let by = hex_encode_to_bytes(&data);
    let mut buf = [0u8; N2];
    let r = hex_encode_to_slice(&data, &mut buf);
    match &r {
        Ok(n) => assert!(*n == N2),
        Err(_) => panic!("hex_encode_to_slice refused an exact buffer"),
    }
    forget(r);
    assert!(by.len() == N2);
    let mut i = 0;
    while i < N {
        let h = data[i] >> 4;
        let l = data[i] & 15;
        assert!(by[2 * i] == def_hex_digit(h, false) && by[2 * i + 1] == def_hex_digit(l, false), "hex_encode_to_bytes");
        assert!(buf[2 * i] == by[2 * i] && buf[2 * i + 1] == by[2 * i + 1], "hex_encode_to_slice");
        i += 1;
    }
    // decode is the inverse
    let d = hex_decode_bytes(&buf);
    match &d {
        Ok(v) => {
            assert!(v.len() == N);
            let mut j = 0;
            while j < N {
                assert!(v[j] == data[j], "decode(encode(x)) != x");
                j += 1;
            }
        }
        Err(_) => panic!("hex_decode_bytes refused its own encoding"),
    }
    if N > 1 {
        // a too-small output buffer is refused
        let mut small = [0u8; N];
        let e = hex_encode_to_slice(&data, &mut small);
        assert!(e.is_err(), "hex_encode_to_slice accepted a short buffer");
        forget(e);
    }
    zcover!(N == 0 || data[0] >= 0xa0, "letter digit");
    forget(d);
    forget(by);
}

/// encode side, String entry points (String::push of a data-dependent char makes these costly)
fn hex_encode_str_case<const N: usize, const N2: usize>() {
    let data: [u8; N] = vany();
    let lo = hex_encode(&data);
    let up = hex_encode_upper(&data);
    assert!(lo.len() == N2 && up.len() == N2);
    let lob = lo.as_bytes();
    let upb = up.as_bytes();
    let mut i = 0;
    while i < N {
        let h = data[i] >> 4;
        let l = data[i] & 15;
        assert!(lob[2 * i] == def_hex_digit(h, false) && lob[2 * i + 1] == def_hex_digit(l, false), "hex_encode");
        assert!(upb[2 * i] == def_hex_digit(h, true) && upb[2 * i + 1] == def_hex_digit(l, true), "hex_encode_upper");
        i += 1;
    }
    let d = hex_decode(&up);
    match &d {
        Ok(v) => {
            assert!(v.len() == N);
            let mut j = 0;
            while j < N {
                assert!(v[j] == data[j], "decode(encode_upper(x)) != x");
                j += 1;
            }
        }
        Err(_) => panic!("hex_decode refused its own encoding"),
    }
    assert!(is_valid_hex(&lo));
    zcover!(N == 0 || data[0] >= 0xa0, "letter digit");
    forget(d);
    forget(lo);
    forget(up);
}

/// decode side: M symbolic text bytes (any byte values)
fn hex_decode_case<const M: usize, const MH: usize>() {
    let text: [u8; M] = vany();
    let mut all = true;
    let mut i = 0;
    while i < M {
        if def_hex_val(text[i]).is_none() {
            all = false;
        }
        i += 1;
    }
    let r = hex_decode_bytes(&text);
    let mut out = [0u8; MH];
    let r2 = hex_decode_to_slice(&text, &mut out);
    if M % 2 == 1 || !all {
        assert!(r.is_err(), "hex_decode_bytes accepted malformed text");
        assert!(r2.is_err(), "hex_decode_to_slice accepted malformed text");
    } else {
        match (&r, &r2) {
            (Ok(v), Ok(n)) => {
                assert!(v.len() == M / 2 && *n == M / 2);
                let mut j = 0;
                while j < M / 2 {
                    let want = (def_hex_val(text[2 * j]).unwrap() << 4) | def_hex_val(text[2 * j + 1]).unwrap();
                    assert!(v[j] == want && out[j] == want, "decoded value");
                    j += 1;
                }
            }
            _ => panic!("hex decode refused well-formed text"),
        }
    }
    if M >= 2 {
        let p = parse_hex_byte(text[0], text[1]);
        match (def_hex_val(text[0]), def_hex_val(text[1])) {
            (Some(h), Some(l)) => assert!(p == Some((h << 4) | l)),
            _ => assert!(p.is_none()),
        }
    }
    zcover!(M % 2 == 1 || r.is_ok(), "accepted (even length)");
    zcover!(r.is_err(), "rejected");
    forget(r);
    forget(r2);
}

macro_rules! c14_hex_enc {
    ($name:ident, $tier:ident, $unwind:literal, $n:literal, $n2:literal) => {
        zv_harness! {
            name: $name,
            prop: "C14",
            tier: $tier,
            unwind: $unwind,
            stubs: [alloc::fmt::format => crate::common::stubs::fmt_format],
            targets: "string::hex::{hex_encode_to_bytes, hex_encode_to_slice, hex_decode_bytes} (single portable tier: the module has no accelerated path)",
            bounds: "every byte string of the concrete length N (args: N, 2N)",
            oracle: "digit-by-digit definition (high nibble first, lowercase alphabet) written in the harness; decode(encode(x)) == x; exact buffer accepted, short buffer refused",
            body: { hex_encode_case::<$n, $n2>() }
        }
    };
}
macro_rules! c14_hex_str {
    ($name:ident, $tier:ident, $unwind:literal, $n:literal, $n2:literal) => {
        zv_harness! {
            name: $name,
            prop: "C14",
            tier: $tier,
            unwind: $unwind,
            stubs: [alloc::fmt::format => crate::common::stubs::fmt_format],
            targets: "string::hex::{hex_encode, hex_encode_upper, hex_decode, is_valid_hex} (String-returning entry points)",
            bounds: "every byte string of the concrete length N (args: N, 2N)",
            oracle: "digit-by-digit definition, lowercase and uppercase alphabets; decode(encode_upper(x)) == x; is_valid_hex(encode(x))",
            body: { hex_encode_str_case::<$n, $n2>() }
        }
    };
}
c14_hex_str!(c14_hex_str_n1, quick, 8, 1, 2);
c14_hex_str!(c14_hex_str_n2, probe, 10, 2, 4);
macro_rules! c14_hex_dec {
    ($name:ident, $tier:ident, $unwind:literal, $m:literal, $mh:literal) => {
        zv_harness! {
            name: $name,
            prop: "C14",
            tier: $tier,
            unwind: $unwind,
            stubs: [alloc::fmt::format => crate::common::stubs::fmt_format],
            targets: "string::hex::{hex_decode_bytes, hex_decode_to_slice, parse_hex_byte, hex_char_to_nibble}",
            bounds: "every text of the concrete length M over all 256 byte values (args: M, M/2)",
            oracle: "Ok iff M even and every byte in [0-9a-fA-F]; value = 16*hi+lo by the harness' digit table; Err otherwise",
            body: { hex_decode_case::<$m, $mh>() }
        }
    };
}
c14_hex_enc!(c14_hex_enc_n0, quick, 6, 0, 0);
c14_hex_enc!(c14_hex_enc_n1, quick, 6, 1, 2);
c14_hex_enc!(c14_hex_enc_n3, quick, 10, 3, 6);
c14_hex_enc!(c14_hex_enc_n4, thorough, 12, 4, 8);
c14_hex_dec!(c14_hex_dec_m1, quick, 6, 1, 0);
c14_hex_dec!(c14_hex_dec_m2, quick, 6, 2, 1);
c14_hex_dec!(c14_hex_dec_m4, quick, 8, 4, 2);
c14_hex_dec!(c14_hex_dec_m6, thorough, 10, 6, 3);

// ------------------------------------------------------------------------------------------ base64 (io::simd_encoding::base64, system::base64)

use zipora::io::simd_encoding::base64 as iob64;
use zipora::system::base64 as sysb64;

fn def_b64_char(v: u8, url: bool) -> u8 {
    if v < 26 {
        b'A' + v
    } else if v < 52 {
        b'a' + (v - 26)
    } else if v < 62 {
        b'0' + (v - 52)
    } else if v == 62 {
        if url { b'-' } else { b'+' }
    } else {
        if url { b'_' } else { b'/' }
    }
}
fn def_b64_val(c: u8) -> Option<u8> {
    if c >= b'A' && c <= b'Z' {
        Some(c - b'A')
    } else if c >= b'a' && c <= b'z' {
        Some(c - b'a' + 26)
    } else if c >= b'0' && c <= b'9' {
        Some(c - b'0' + 52)
    } else if c == b'+' {
        Some(62)
    } else if c == b'/' {
        Some(63)
    } else {
        None
    }
}
/// RFC 4648 section 4 encoding of N <= 6 bytes into `out` (padded); returns the length.
fn def_b64_encode<const N: usize>(data: &[u8; N], url: bool, pad: bool, out: &mut [u8; 8]) -> usize {
    let mut o = 0;
    let mut i = 0;
    while i + 3 <= N {
        let (a, b, c) = (data[i], data[i + 1], data[i + 2]);
        out[o] = def_b64_char(a >> 2, url);
        out[o + 1] = def_b64_char(((a & 3) << 4) | (b >> 4), url);
        out[o + 2] = def_b64_char(((b & 15) << 2) | (c >> 6), url);
        out[o + 3] = def_b64_char(c & 63, url);
        o += 4;
        i += 3;
    }
    if N - i == 1 {
        let a = data[i];
        out[o] = def_b64_char(a >> 2, url);
        out[o + 1] = def_b64_char((a & 3) << 4, url);
        o += 2;
        if pad {
            out[o] = b'=';
            out[o + 1] = b'=';
            o += 2;
        }
    } else if N - i == 2 {
        let (a, b) = (data[i], data[i + 1]);
        out[o] = def_b64_char(a >> 2, url);
        out[o + 1] = def_b64_char(((a & 3) << 4) | (b >> 4), url);
        out[o + 2] = def_b64_char((b & 15) << 2, url);
        o += 3;
        if pad {
            out[o] = b'=';
            o += 1;
        }
    }
    o
}

fn same_bytes(got: &[u8], want: &[u8; 8], n: usize) -> bool {
    if got.len() != n {
        return false;
    }
    let mut i = 0;
    while i < n {
        if got[i] != want[i] {
            return false;
        }
        i += 1;
    }
    true
}

fn check_decoded<const N: usize>(d: &zipora::Result<Vec<u8>>, data: &[u8; N]) {
    match d {
        Ok(a) => {
            assert!(a.len() == N, "decoded length");
            let mut i = 0;
            while i < N {
                assert!(a[i] == data[i], "decode(encode(x)) != x");
                i += 1;
            }
        }
        Err(_) => panic!("decode refused a canonical encoding"),
    }
}
/// io::simd_encoding::base64 String entry points: encode == RFC 4648, decode(encode(x)) == x
fn b64_io<const N: usize>() {
    let data: [u8; N] = vany();
    let mut want = [0u8; 8];
    let wn = def_b64_encode(&data, false, true, &mut want);
    assert!(iob64::calculate_encoded_len(N) == wn, "calculate_encoded_len");
    assert!(iob64::calculate_decoded_len(wn) >= N, "calculate_decoded_len is an upper bound");
    let e1 = iob64::encode_base64(&data);
    let s1 = match &e1 {
        Ok(s) => s,
        Err(_) => panic!("encode_base64 failed"),
    };
    assert!(same_bytes(s1.as_bytes(), &want, wn), "io encode_base64 != RFC 4648");
    let d1 = iob64::decode_base64(s1);
    check_decoded(&d1, &data);
    zcover!(N == 0 || data[N - 1] == 0xff, "all-ones last byte");
    forget(e1);
    forget(d1);
}
/// system::base64 convenience functions
fn b64_sys<const N: usize>() {
    let data: [u8; N] = vany();
    let mut want = [0u8; 8];
    let wn = def_b64_encode(&data, false, true, &mut want);
    let s2 = sysb64::base64_encode_simd(&data);
    assert!(same_bytes(s2.as_bytes(), &want, wn), "system base64_encode_simd != RFC 4648");
    let d2 = sysb64::base64_decode_simd(&s2);
    check_decoded(&d2, &data);
    zcover!(N == 0 || data[N - 1] == 0xff, "all-ones last byte");
    forget(s2);
    forget(d2);
}
/// io::simd_encoding::base64 buffer entry points
fn b64_buf<const N: usize>() {
    let data: [u8; N] = vany();
    let mut want = [0u8; 8];
    let wn = def_b64_encode(&data, false, true, &mut want);
    let mut buf = [0u8; 8];
    let e4 = iob64::encode_base64_to_buffer(&data, &mut buf);
    match &e4 {
        Ok(n) => assert!(*n == wn && same_bytes(&buf[..wn], &want, wn), "encode_base64_to_buffer"),
        Err(_) => panic!("encode_base64_to_buffer failed"),
    }
    let mut out = [0u8; 8];
    let d4 = iob64::decode_base64_from_buffer(&buf[..wn], &mut out);
    match &d4 {
        Ok(n) => {
            assert!(*n == N);
            let mut i = 0;
            while i < N {
                assert!(out[i] == data[i], "decode_base64_from_buffer");
                i += 1;
            }
        }
        Err(_) => panic!("decode_base64_from_buffer refused a canonical encoding"),
    }
    if N > 0 {
        let mut small = [0u8; 1];
        let e = iob64::encode_base64_to_buffer(&data, &mut small);
        assert!(e.is_err(), "encode_base64_to_buffer accepted a short buffer");
        forget(e);
    }
    zcover!(N == 0 || data[N - 1] == 0xff, "all-ones last byte");
    forget(e4);
    forget(d4);
}

/// URL-safe / unpadded configurations of AdaptiveBase64
fn b64_config<const N: usize>(url: bool, pad: bool) {
    let data: [u8; N] = vany();
    let mut want = [0u8; 8];
    let wn = def_b64_encode(&data, url, pad, &mut want);
    let codec = sysb64::AdaptiveBase64::with_config(sysb64::Base64Config { url_safe: url, padding: pad, force_implementation: None });
    let s = codec.encode(&data);
    assert!(same_bytes(s.as_bytes(), &want, wn), "AdaptiveBase64(config)::encode != RFC 4648");
    let d = codec.decode(&s);
    match &d {
        Ok(a) => {
            assert!(a.len() == N);
            let mut i = 0;
            while i < N {
                assert!(a[i] == data[i], "decode(encode(x)) != x");
                i += 1;
            }
        }
        Err(_) => panic!("decode refused a canonical encoding"),
    }
    zcover!(N == 0 || data[N - 1] >= 0xfb, "characters 62/63 used");
    forget(s);
    forget(d);
}
fn b64_urlsafe_nopad<const N: usize>() {
    b64_config::<N>(true, false)
}
fn b64_urlsafe_pad<const N: usize>() {
    b64_config::<N>(true, true)
}
fn b64_std_nopad<const N: usize>() {
    b64_config::<N>(false, false)
}

/// decoding of an arbitrary 4-character text (standard alphabet, padding required):
/// shape = [v v v v] | [v v v =] | [v v = =]; anything else must be refused; an accepted text decodes
/// to the RFC 4648 bytes; a canonical text (unused low bits zero) must be accepted.
fn b64_decode_text4() {
    let t: [u8; 4] = vany();
    let mut i = 0;
    while i < 4 {
        assume(t[i] < 0x80);
        i += 1;
    }
    let v0 = def_b64_val(t[0]);
    let v1 = def_b64_val(t[1]);
    let v2 = def_b64_val(t[2]);
    let v3 = def_b64_val(t[3]);
    // (shape ok, decoded length, canonical)
    let (shape, n, canon) = match (v0, v1, v2, v3) {
        (Some(_), Some(_), Some(_), Some(_)) => (true, 3, true),
        (Some(_), Some(_), Some(c), None) if t[3] == b'=' => (true, 2, c & 3 == 0),
        (Some(_), Some(b), None, None) if t[2] == b'=' && t[3] == b'=' => (true, 1, b & 15 == 0),
        _ => (false, 0, false),
    };
    let s = unsafe { core::str::from_utf8_unchecked(&t) };
    let r = iob64::decode_base64(s);
    let r2 = sysb64::base64_decode_simd(s);
    assert!(r.is_ok() == r2.is_ok(), "the two modules disagree on acceptance");
    match &r {
        Ok(v) => {
            assert!(shape, "decode accepted a text with a non-alphabet character or misplaced padding");
            assert!(v.len() == n, "decoded length");
            let (a, b) = (v0.unwrap(), v1.unwrap());
            assert!(v[0] == (a << 2) | (b >> 4));
            if n >= 2 {
                assert!(v[1] == (b << 4) | (v2.unwrap() >> 2));
            }
            if n == 3 {
                assert!(v[2] == (v2.unwrap() << 6) | v3.unwrap());
            }
        }
        Err(_) => assert!(!(shape && canon), "decode refused a canonical RFC 4648 text"),
    }
    zcover!(r.is_ok() && n == 1, "two pad characters accepted");
    zcover!(r.is_ok() && n == 2, "one pad character accepted");
    zcover!(r.is_err() && shape, "non-canonical trailing bits refused");
    zcover!(r.is_err() && !shape, "malformed refused");
    forget(r);
    forget(r2);
}

macro_rules! c14_b64 {
    ($name:ident, $tier:ident, $unwind:literal, $f:path) => {
        zv_harness! {
            name: $name,
            prop: "C14",
            tier: $tier,
            unwind: $unwind,
            stubs: [alloc::fmt::format => crate::common::stubs::fmt_format],
            targets: "io::simd_encoding::base64::{encode_base64, decode_base64, encode_base64_to_buffer, decode_base64_from_buffer, calculate_encoded_len, calculate_decoded_len}, system::base64::{base64_encode_simd, base64_decode_simd, AdaptiveBase64::{new,with_config,encode,decode}} (both are wrappers of the `base64` crate engine, which is part of what is encoded; single portable tier)",
            bounds: "instance function: b64_io::<N> / b64_sys::<N> / b64_buf::<N> / b64_urlsafe_nopad::<N> / b64_urlsafe_pad::<N> / b64_std_nopad::<N>: every byte string of length N; b64_decode_text4: every 4-character ASCII text",
            oracle: "RFC 4648 section 4/5 encoder written in the harness (alphabet, bit packing, '=' padding); decode(encode(x)) == x; decode accepts only [A-Za-z0-9+/] with padding at the end, returns the RFC bytes, and accepts every canonical text (refusal of non-zero unused bits is allowed by RFC 4648 3.5 and not judged)",
            body: { $f() }
        }
    };
}
c14_b64!(c14_b64_io_n0, quick, 12, b64_io::<0>);
c14_b64!(c14_b64_io_n1, probe, 12, b64_io::<1>);
c14_b64!(c14_b64_io_n2, probe, 12, b64_io::<2>);
c14_b64!(c14_b64_io_n3, probe, 12, b64_io::<3>);
c14_b64!(c14_b64_io_n4, probe, 12, b64_io::<4>);
c14_b64!(c14_b64_sys_n2, probe, 12, b64_sys::<2>);
c14_b64!(c14_b64_sys_n4, probe, 12, b64_sys::<4>);
c14_b64!(c14_b64_buf_n3, probe, 12, b64_buf::<3>);
c14_b64!(c14_b64_urlsafe_nopad_n2, probe, 12, b64_urlsafe_nopad::<2>);
c14_b64!(c14_b64_urlsafe_pad_n1, probe, 12, b64_urlsafe_pad::<1>);
c14_b64!(c14_b64_std_nopad_n4, probe, 12, b64_std_nopad::<4>);
c14_b64!(c14_b64_decode_text4, quick, 12, b64_decode_text4);

// ------------------------------------------------------------------------------------------ io::simd_validation::utf8

use zipora::io::simd_validation::utf8::Utf8Validator;

/// RFC 3629 section 4 (Unicode table 3-7): well-formed byte sequences, written as a scanner.
fn def_utf8_valid(d: &[u8]) -> bool {
    let n = d.len();
    let mut i = 0;
    while i < n {
        let b0 = d[i];
        if b0 < 0x80 {
            i += 1;
        } else if b0 >= 0xC2 && b0 <= 0xDF {
            if i + 1 >= n || d[i + 1] < 0x80 || d[i + 1] > 0xBF {
                return false;
            }
            i += 2;
        } else if b0 >= 0xE0 && b0 <= 0xEF {
            if i + 2 >= n {
                return false;
            }
            let lo = if b0 == 0xE0 { 0xA0 } else { 0x80 };
            let hi = if b0 == 0xED { 0x9F } else { 0xBF };
            if d[i + 1] < lo || d[i + 1] > hi || d[i + 2] < 0x80 || d[i + 2] > 0xBF {
                return false;
            }
            i += 3;
        } else if b0 >= 0xF0 && b0 <= 0xF4 {
            if i + 3 >= n {
                return false;
            }
            let lo = if b0 == 0xF0 { 0x90 } else { 0x80 };
            let hi = if b0 == 0xF4 { 0x8F } else { 0xBF };
            if d[i + 1] < lo || d[i + 1] > hi || d[i + 2] < 0x80 || d[i + 2] > 0xBF || d[i + 3] < 0x80 || d[i + 3] > 0xBF {
                return false;
            }
            i += 4;
        } else {
            return false;
        }
    }
    true
}

fn utf8_case<const N: usize>() {
    let flags = choose_tier_flags();
    let d: [u8; N] = vany();
    let v = Utf8Validator::new_unmonitored();
    let r = v.validate_utf8(&d);
    let want = def_utf8_valid(&d);
    match &r {
        Ok(b) => assert!(*b == want, "validate_utf8 verdict differs from RFC 3629"),
        Err(_) => panic!("validate_utf8 returned an internal error"),
    }
    zcover!(N == 1 || (want && d[0] >= 0x80), "valid multi-byte sequence (when N > 1)");
    zcover!(!want, "invalid input");
    zcover!(flags[2], "AVX2 tier selected");
    zcover!(!flags[2] && flags[1], "SSE4.2 tier selected");
    zcover!(!flags[2] && !flags[1] && flags[0], "SSE2 tier selected");
    zcover!(!flags[2] && !flags[1] && !flags[0], "scalar tier selected");
    forget(r);
}

macro_rules! c14_utf8 {
    ($name:ident, $tier:ident, $unwind:literal, $n:literal) => {
        zv_harness! {
            name: $name,
            prop: "C14",
            tier: $tier,
            unwind: $unwind,
            stubs: [alloc::fmt::format => crate::common::stubs::fmt_format,
                    std::rt::thread_cleanup => crate::common::stubs::noop,
                    std::time::Instant::now => crate::common::stubs::instant_now,
                    std::time::Instant::elapsed => crate::common::stubs::instant_elapsed,
                    zipora::system::cpu_features::get_cpu_features => crate::c14_accel::cpu_sym],
            targets: "io::simd_validation::utf8::Utf8Validator::{new_unmonitored, select_optimal_tier, validate_utf8, validate_utf8_internal, validate_utf8_avx2/sse42/sse2 (scalar tails only: input shorter than one register), validate_utf8_scalar}",
            bounds: "every byte string of the concrete length N (last arg) x every combination of the SSE4.1/SSE4.2/AVX2 feature flags (symbolic); the performance-monitoring wrapper (validate_utf8 free function / monitored validator) is not included",
            oracle: "RFC 3629 well-formedness scanner written in the harness (overlong, surrogate, > U+10FFFF and truncated forms rejected)",
            body: { utf8_case::<$n>() }
        }
    };
}
c14_utf8!(c14_utf8_anytier_n1, quick, 8, 1);
c14_utf8!(c14_utf8_anytier_n2, quick, 8, 2);
c14_utf8!(c14_utf8_anytier_n3, quick, 8, 3);
c14_utf8!(c14_utf8_anytier_n4, quick, 8, 4);
c14_utf8!(c14_utf8_anytier_n5, thorough, 10, 5);

// ------------------------------------------------------------------------------------------ memory::simd_ops

use zipora::memory::simd_ops::SimdMemOps;

fn def_cmp_sign(a: &[u8], b: &[u8]) -> i32 {
    let mut i = 0;
    while i < a.len() && i < b.len() {
        if a[i] != b[i] {
            return if a[i] < b[i] { -1 } else { 1 };
        }
        i += 1;
    }
    if a.len() < b.len() {
        -1
    } else if a.len() > b.len() {
        1
    } else {
        0
    }
}
fn sign(x: i32) -> i32 {
    if x < 0 {
        -1
    } else if x > 0 {
        1
    } else {
        0
    }
}

/// compare / find_byte / fill / copy on sub-slices buf[off..off+LA] and buf2[..LB]
fn memops_inner<const LA: usize, const LB: usize, const OFF: usize, const TOT: usize>() {
    let ops = SimdMemOps::new();
    let buf: [u8; TOT] = vany();
    let other: [u8; LB] = vany();
    let a = &buf[OFF..OFF + LA];
    let b = &other[..];
    let c = ops.compare(a, b);
    assert!(sign(c) == def_cmp_sign(a, b), "compare sign differs from lexicographic byte order");
    assert!(sign(ops.compare(b, a)) == -def_cmp_sign(a, b), "compare is not antisymmetric");
    assert!(sign(ops.compare_cache_optimized(a, b)) == def_cmp_sign(a, b), "compare_cache_optimized");
    let needle: u8 = vany();
    let f = ops.find_byte(a, needle);
    match f {
        Some(i) => {
            assert!(i < LA && a[i] == needle, "find_byte: not a match");
            let mut j = 0;
            while j < i {
                assert!(a[j] != needle, "find_byte: not the first match");
                j += 1;
            }
        }
        None => {
            let mut j = 0;
            while j < LA {
                assert!(a[j] != needle, "find_byte missed an occurrence");
                j += 1;
            }
        }
    }
    // copy into a fresh buffer, then fill
    let mut dst = [0u8; LA];
    let r = ops.copy_nonoverlapping(a, &mut dst);
    assert!(r.is_ok(), "copy_nonoverlapping refused equal-length disjoint slices");
    forget(r);
    let mut j = 0;
    while j < LA {
        assert!(dst[j] == a[j], "copy_nonoverlapping");
        j += 1;
    }
    if LA != LB {
        let mut wrong = [0u8; LB];
        let e = ops.copy_nonoverlapping(a, &mut wrong);
        assert!(e.is_err(), "copy_nonoverlapping accepted a length mismatch");
        forget(e);
    }
    let v: u8 = vany();
    let mut whole = buf;
    ops.fill(&mut whole[OFF..OFF + LA], v);
    let mut j = 0;
    while j < TOT {
        if j >= OFF && j < OFF + LA {
            assert!(whole[j] == v, "fill did not write the range");
        } else {
            assert!(whole[j] == buf[j], "fill wrote outside the range");
        }
        j += 1;
    }
    zcover!(LA == 0 || LB == 0 || (c < 0 && a[0] >= 0x80), "compare decided by bytes >= 0x80");
    zcover!(LA == 0 || f == Some(LA - 1), "needle at the last byte");
    zcover!(f.is_none(), "needle absent");
    forget(ops);
}
fn memops_case<const LA: usize, const LB: usize, const OFF: usize, const TOT: usize>() {
    let flags = choose_tier_flags();
    memops_inner::<LA, LB, OFF, TOT>();
    zcover!(flags[2], "AVX2 tier selected");
    zcover!(!flags[2] && flags[0] && flags[1], "SSE2 tier selected");
    zcover!(!flags[2] && !flags[1], "scalar tier selected");
}

macro_rules! c14_memops {
    ($name:ident, $tier:ident, $unwind:literal, $la:literal, $lb:literal, $off:literal, $tot:literal) => {
        zv_harness! {
            name: $name,
            prop: "C14",
            tier: $tier,
            unwind: $unwind,
            stubs: [alloc::fmt::format => crate::common::stubs::fmt_format,
                    zipora::system::cpu_features::get_cpu_features => crate::c14_accel::cpu_sym,
                    std::arch::x86_64::__cpuid_count => crate::common::stubs::cpuid_zero],
            targets: "memory::simd_ops::SimdMemOps::{new, select_optimal_tier, compare, compare_cache_optimized, find_byte, copy_nonoverlapping, fill} and simd_memcmp/simd_memchr/simd_memcpy_unaligned/simd_memset dispatch (for lengths below one vector register every tier ends in scalar_memcmp/memchr/memcpy/memset)",
            bounds: "args LA, LB, OFF, TOT: a = sub-slice [OFF, OFF+LA) of a symbolic TOT-byte buffer, b = symbolic LB-byte buffer, symbolic needle and fill value; SSE4.1/SSE4.2/AVX2 flags symbolic (AVX-512 off); prefetch never issued (lengths < prefetch_distance)",
            oracle: "sign(compare(a,b)) == lexicographic order by unsigned bytes then length (loop in the harness), antisymmetry; find_byte == first index with a[i]==needle or None; copy result == source, length mismatch refused; fill writes exactly the range",
            body: { memops_case::<$la, $lb, $off, $tot>() }
        }
    };
}
c14_memops!(c14_memops_anytier_a0_b1, quick, 8, 0, 1, 0, 2);
c14_memops!(c14_memops_anytier_a3_b3, quick, 8, 3, 3, 1, 5);
c14_memops!(c14_memops_anytier_a2_b4, quick, 8, 2, 4, 3, 6);
c14_memops!(c14_memops_anytier_a9_b9, thorough, 18, 9, 9, 3, 16);

// --- thorough: the vector kernels proper (stdarch bodies of loadu/storeu/set1/cmpeq/movemask executed by Kani, if it can)
macro_rules! c14_memops_vec {
    ($name:ident, $tier:ident, $unwind:literal, $cpu:path, $la:literal, $lb:literal, $off:literal, $tot:literal) => {
        zv_harness! {
            name: $name,
            prop: "C14",
            tier: $tier,
            unwind: $unwind,
            stubs: [alloc::fmt::format => crate::common::stubs::fmt_format,
                    zipora::system::cpu_features::get_cpu_features => $cpu,
                    std::arch::x86_64::__cpuid_count => crate::common::stubs::cpuid_zero],
            targets: "memory::simd_ops::SimdMemOps::{compare, find_byte, copy_nonoverlapping, fill} through the vector kernels sse2_memcmp/sse2_memchr/sse2_memcpy_unaligned/sse2_memset (cpu_sse42) or avx2_* (cpu_avx2), vector main loop + scalar tail; the x86 vector intrinsics are executed through their stdarch bodies as far as Kani supports them",
            bounds: "args: tier record, LA, LB, OFF, TOT as in the short-slice family; lengths around one register width",
            oracle: "same as the short-slice family",
            body: { crate::common::stubs::native_tier($cpu); memops_inner::<$la, $lb, $off, $tot>() }
        }
    };
}
c14_memops_vec!(c14_memops_sse2_a17_b17, thorough, 27, crate::c14_accel::cpu_sse42, 17, 17, 3, 24);
c14_memops_vec!(c14_memops_sse2_a16_b17, thorough, 24, crate::c14_accel::cpu_sse42, 16, 17, 1, 20);
c14_memops_vec!(c14_memops_avx2_a33_b33, thorough, 43, crate::c14_accel::cpu_avx2, 33, 33, 5, 40);

fn utf8_fixed_tier<const N: usize>() {
    let d: [u8; N] = vany();
    let v = Utf8Validator::new_unmonitored();
    let r = v.validate_utf8(&d);
    let want = def_utf8_valid(&d);
    match &r {
        Ok(b) => assert!(*b == want, "validate_utf8 verdict differs from RFC 3629"),
        Err(_) => panic!("validate_utf8 returned an internal error"),
    }
    zcover!(want && d[N - 1] >= 0x80 && d[0] < 0x80, "valid, multi-byte sequence in the tail");
    zcover!(!want && d[N - 1] >= 0xC2 && d[0] < 0x80, "truncated sequence at the end");
    forget(r);
}
macro_rules! c14_utf8_vec {
    ($name:ident, $tier:ident, $unwind:literal, $cpu:path, $n:literal) => {
        zv_harness! {
            name: $name,
            prop: "C14",
            tier: $tier,
            unwind: $unwind,
            stubs: [alloc::fmt::format => crate::common::stubs::fmt_format,
                    std::rt::thread_cleanup => crate::common::stubs::noop,
                    std::time::Instant::now => crate::common::stubs::instant_now,
                    std::time::Instant::elapsed => crate::common::stubs::instant_elapsed,
                    zipora::system::cpu_features::get_cpu_features => $cpu],
            targets: "io::simd_validation::utf8::Utf8Validator::validate_utf8 through validate_utf8_sse2 (cpu_sse41: loadu/set1/and/movemask ASCII fast path + scalar validation of the rest)",
            bounds: "every byte string of the concrete length N (one 16-byte register + tail)",
            oracle: "RFC 3629 scanner in the harness",
            body: { crate::common::stubs::native_tier($cpu); utf8_fixed_tier::<$n>() }
        }
    };
}
c14_utf8_vec!(c14_utf8_sse2_n17, probe, 24, crate::c14_accel::cpu_sse41, 17);
c14_utf8_vec!(c14_utf8_sse2_n18, probe, 24, crate::c14_accel::cpu_sse41, 18);

// ------------------------------------------------------------------------------------------ string::bmi2_string_ops (UTF-8 counting / extraction, BMI2 path for inputs >= 8 bytes)

use zipora::string::Bmi2StringProcessor;

/// RFC 3629 decoder for a buffer already known to be well formed: code points in order.
fn def_utf8_decode<const N: usize>(d: &[u8; N], out: &mut [u32; N]) -> usize {
    let mut i = 0;
    let mut n = 0;
    while i < N {
        let b0 = d[i] as u32;
        if b0 < 0x80 {
            out[n] = b0;
            i += 1;
        } else if b0 < 0xE0 {
            out[n] = ((b0 & 0x1F) << 6) | (d[i + 1] as u32 & 0x3F);
            i += 2;
        } else if b0 < 0xF0 {
            out[n] = ((b0 & 0x0F) << 12) | ((d[i + 1] as u32 & 0x3F) << 6) | (d[i + 2] as u32 & 0x3F);
            i += 3;
        } else {
            out[n] = ((b0 & 0x07) << 18) | ((d[i + 1] as u32 & 0x3F) << 12) | ((d[i + 2] as u32 & 0x3F) << 6) | (d[i + 3] as u32 & 0x3F);
            i += 4;
        }
        n += 1;
    }
    n
}

/// 8-byte text "abc??def" whose bytes 3 and 4 are symbolic (ASCII, a 2-byte character, or malformed).
fn utf8x_case() {
    let w: [u8; 2] = vany();
    let d: [u8; 8] = [b'a', b'b', b'c', w[0], w[1], b'd', b'e', b'f'];
    let valid = def_utf8_valid(&d);
    // warm-up of the capability OnceLock used by the BEXTR helper
    let _ = Bmi2BextrOps::extract_bits_bextr(0, 0, 8);
    let p = Bmi2StringProcessor::new();
    assert!(p.validate_utf8_bmi2(&d) == valid, "validate_utf8_bmi2 differs from RFC 3629");
    let mut cps = [0u32; 8];
    let n = if valid { def_utf8_decode(&d, &mut cps) } else { 0 };
    let c = p.count_utf8_chars_bmi2(&d);
    match &c {
        Ok(k) => assert!(valid && *k == n, "count_utf8_chars_bmi2 wrong count / accepted malformed input"),
        Err(_) => assert!(!valid, "count_utf8_chars_bmi2 refused well-formed UTF-8"),
    }
    let e = p.extract_utf8_chars_bmi2(&d);
    match &e {
        Ok(v) => {
            assert!(valid, "extract_utf8_chars_bmi2 accepted malformed UTF-8");
            assert!(v.len() == n, "extract_utf8_chars_bmi2: number of characters");
            let mut i = 0;
            while i < n {
                assert!(v[i] == cps[i], "extract_utf8_chars_bmi2: code point");
                i += 1;
            }
        }
        Err(_) => assert!(!valid, "extract_utf8_chars_bmi2 refused well-formed UTF-8"),
    }
    zcover!(valid && w[0] >= 0x80, "well-formed two-byte character at offset 3");
    zcover!(!valid, "malformed");
    forget(c);
    forget(e);
    forget(p);
}

macro_rules! c14_utf8x {
    ($name:ident, $tier:ident, $unwind:literal, $cpu:path) => {
        zv_harness! {
            name: $name,
            prop: "C14",
            tier: $tier,
            unwind: $unwind,
            stubs: [alloc::fmt::format => crate::common::stubs::fmt_format,
                    zipora::system::cpu_features::get_cpu_features => $cpu,
                    std::arch::x86_64::_bextr_u64 => crate::c14_accel::isa::bextr64],
            targets: "string::bmi2_string_ops::Bmi2StringProcessor::{new, validate_utf8_bmi2, count_utf8_chars_bmi2, extract_utf8_chars_bmi2}; tier = get_cpu_features replacement (cpu_none: std fallbacks; cpu_bmi2: *_bmi2_impl incl. decode_utf8_char_bmi2 and count_utf8_continuation_bytes_bmi2 with the SDM model of BEXTR)",
            bounds: "the 8-byte text 'abc' b3 b4 'def' for every pair of bytes b3, b4 (8 bytes is the shortest input that takes the BMI2 path)",
            oracle: "RFC 3629 scanner/decoder in the harness: validate == well-formed; count/extract are Ok(number of characters / the code points) iff well-formed",
            body: { crate::common::stubs::native_tier($cpu); utf8x_case() }
        }
    };
}
c14_utf8x!(c14_utf8x_abc2def_scalar, probe, 12, crate::c14_accel::cpu_none);
c14_utf8x!(c14_utf8x_abc2def_bmi2, probe, 12, crate::c14_accel::cpu_bmi2);

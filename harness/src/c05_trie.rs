//! C05 — a trie is exactly the set of keys inserted and not removed.
use crate::common::*;
use zipora::fsa::{TrieStrategy, ZiporaTrie, ZiporaTrieConfig};

/// `zipora::system::cpu_features::get_cpu_features`: scalar tier (the real detector runs CPUID behind a
/// `OnceLock`); reached through `CacheOptimizedAllocator::new -> SimdMemOps::new`.
pub fn cpu_features_scalar() -> &'static zipora::system::CpuFeatures {
    Box::leak(Box::new(zipora::system::CpuFeatures::new()))
}
/// `std::hash::RandomState::new`: fixed SipHash keys (the real one calls getrandom).
pub fn randomstate_fixed() -> std::hash::RandomState {
    // SAFETY: RandomState is a plain pair of u64 keys.
    unsafe { core::mem::transmute::<(u64, u64), std::hash::RandomState>((0, 0)) }
}
/// `std::io::_eprint`: diagnostics of `zipora_verify!` failure paths (which then abort).
pub fn eprint_noop(_a: core::fmt::Arguments<'_>) {}

fn preset_cfg(p: u8) -> ZiporaTrieConfig {
    match p {
        0 => ZiporaTrieConfig::default(),            // Patricia
        1 => ZiporaTrieConfig::cache_optimized(),    // Patricia, cache-optimised storage
        2 => ZiporaTrieConfig::space_optimized(),    // LOUDS
        3 => ZiporaTrieConfig::sparse_optimized(),   // compressed sparse
        4 => ZiporaTrieConfig::string_specialized(), // critical-bit
        _ => {
            // double array (the only preset that selects it needs a SecureMemoryPool): default + strategy
            let mut c = ZiporaTrieConfig::default();
            c.trie_strategy = TrieStrategy::DoubleArray {
                initial_capacity: 16,
                growth_factor: 1.5,
                free_list_management: true,
                auto_shrink: false,
            };
            c.cache_optimization = false;
            c
        }
    }
}

/// byte-wise equality of two keys of concrete lengths
#[inline(always)]
fn key_eq<const A: usize, const B: usize>(a: &[u8; A], b: &[u8; B]) -> bool {
    if A != B {
        return false;
    }
    let mut i = 0;
    while i < A {
        if a[i] != b[i] {
            return false;
        }
        i += 1;
    }
    true
}

/// insert(k1); insert(k2); [remove(k1)]; then contains / len / keys() against the set.
fn trie_hist<const PRESET: u8, const L1: usize, const L2: usize, const LQ: usize, const REMOVE: bool, const KEYS: bool>() {
    let mut t: ZiporaTrie = ZiporaTrie::with_config(preset_cfg(PRESET));
    let k1: [u8; L1] = vany();
    let k2: [u8; L2] = vany();
    let q: [u8; LQ] = vany();
    let r1 = t.insert(&k1);
    let ok1 = r1.is_ok();
    forget(r1);
    assert!(ok1, "insert(k1) failed");
    assert!(t.contains(&k1), "contains(k1) false right after insert(k1)");
    assert!(t.len() == 1, "len != 1 after the first insert");
    let r2 = t.insert(&k2);
    let ok2 = r2.is_ok();
    forget(r2);
    assert!(ok2, "insert(k2) failed");
    let same = key_eq(&k1, &k2);
    let mut in1 = true;
    let in2 = true;
    assert!(t.len() == if same { 1 } else { 2 }, "len is not the number of distinct keys inserted");
    if REMOVE {
        let rr = t.remove(&k1);
        let rok = rr.is_ok();
        forget(rr);
        assert!(rok, "remove of a present key failed");
        in1 = false;
    }
    // membership of an arbitrary query key
    let expect_q = (in1 && key_eq(&q, &k1)) || (in2 && key_eq(&q, &k2) && !(REMOVE && same));
    assert!(t.contains(&q) == expect_q, "contains(q) differs from the set of keys inserted and not removed");
    let n_expected = if REMOVE { if same { 0 } else { 1 } } else if same { 1 } else { 2 };
    assert!(t.len() == n_expected, "len differs from the size of the set");
    if KEYS {
        let ks = t.keys();
        assert!(ks.len() == n_expected, "keys() does not enumerate exactly the set (count)");
        let mut i = 0;
        while i < ks.len() {
            let k = &ks[i];
            let is1 = in1 && k.len() == L1 && { let mut e = true; let mut j = 0; while j < L1 { if k[j] != k1[j] { e = false; } j += 1; } e };
            let is2 = in2 && !(REMOVE && same) && k.len() == L2 && { let mut e = true; let mut j = 0; while j < L2 { if k[j] != k2[j] { e = false; } j += 1; } e };
            assert!(is1 || is2, "keys() yields a key that is not in the set");
            i += 1;
        }
        forget(ks);
    }
    zcover!(same, "k1 == k2 (re-insert)");
    zcover!(!same, "two distinct keys");
    zcover!(expect_q, "query key is a member");
    forget(t);
}

macro_rules! c05_trie {
    ($name:ident, $tier:ident, $unwind:literal, $preset:literal, $l1:literal, $l2:literal, $lq:literal, $remove:literal, $keys:literal) => {
        zv_harness! {
            name: $name,
            prop: "C05",
            tier: $tier,
            unwind: $unwind,
            stubs: [alloc::fmt::format => crate::common::stubs::fmt_format,
                    std::rt::thread_cleanup => crate::common::stubs::noop,
                    std::arch::x86_64::__cpuid_count => crate::common::stubs::cpuid_zero,
                    zipora::system::cpu_features::get_cpu_features => crate::c05_trie::cpu_features_scalar,
                    std::hash::RandomState::new => crate::c05_trie::randomstate_fixed,
                    std::io::_eprint => crate::c05_trie::eprint_noop],
            targets: "ZiporaTrie::{with_config, insert, remove, contains, len, keys} and the insert_*/contains_*/keys_* back end of the strategy selected by the instance",
            bounds: "instance args: preset (0 Patricia default, 1 Patricia cache_optimized, 2 LOUDS space_optimized, 3 compressed sparse, 4 critical-bit string_specialized, 5 double array), concrete key lengths |k1| |k2| |q| (0..2) with every byte symbolic (equal keys, prefixes, 0x00/0xFF are solver choices), remove(k1) yes/no, keys() checked yes/no",
            oracle: "set semantics: contains(k1) after insert, len = number of distinct keys inserted and not removed, contains(q) = membership of q, keys() enumerates exactly the set",
            body: { trie_hist::<$preset, $l1, $l2, $lq, $remove, $keys>() }
        }
    };
}

// smallest shapes first (|k1|=|k2|=|q|=1); everything is measured before it is called quick
c05_trie!(c05_louds_111_keys, probe, 12, 2, 1, 1, 1, false, true);
c05_trie!(c05_louds_111_remove, probe, 12, 2, 1, 1, 1, true, false);
c05_trie!(c05_dblarray_111, probe, 12, 5, 1, 1, 1, false, false);
c05_trie!(c05_patricia_111_remove, probe, 12, 0, 1, 1, 1, true, false);
c05_trie!(c05_sparse_111, probe, 12, 3, 1, 1, 1, false, false);
c05_trie!(c05_critbit_111, probe, 12, 4, 1, 1, 1, false, false);
c05_trie!(c05_louds_121_keys, probe, 12, 2, 1, 2, 1, false, true);
c05_trie!(c05_louds_012_remove, probe, 12, 2, 0, 1, 2, true, false);

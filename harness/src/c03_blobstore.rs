//! C03 — blob stores return exactly what was stored, under stable ids.
//!
//! `MemoryBlobStore` / `ZeroLengthBlobStore` operation histories against an array model, bulk
//! builders (`MixedLenBlobStore`, `SimpleZipBlobStore`, `ZipOffsetBlobStoreBuilder`) with records
//! of concrete lengths 0..2 and symbolic content, `ZipOffsetBlobStore` save -> load.
use crate::common::*;
use zipora::blob_store::{
    BlobStore, MemoryBlobStore, MixedLenBlobStore, SimpleZipBlobStore, SimpleZipConfig,
    SortedUintVecConfig, ZeroLengthBlobStore, ZipOffsetBlobStore, ZipOffsetBlobStoreBuilder,
    ZipOffsetBlobStoreConfig,
};

/// Stub for `std::hash::RandomState::new` (real one asks the OS for random keys): fixed SipHash
/// keys. Local to this module (generic helper, not in common/).
pub fn fixed_random_state() -> std::collections::hash_map::RandomState {
    // SAFETY: RandomState is a pair of u64 keys.
    unsafe { core::mem::transmute::<[u64; 2], std::collections::hash_map::RandomState>([0x0706050403020100, 0x0f0e0d0c0b0a0908]) }
}

static CPU_NONE: zipora::system::CpuFeatures = zipora::system::CpuFeatures {
    has_sse41: false, has_sse42: false, has_avx: false, has_avx2: false, has_avx512f: false,
    has_avx512vl: false, has_avx512bw: false, has_avx512vpopcntdq: false, has_bmi1: false,
    has_bmi2: false, has_popcnt: false, has_lzcnt: false, has_tzcnt: false, has_prefetchw: false,
    has_neon: false, has_crc32: false, has_crypto: false, has_sve: false, has_sve2: false,
    l1_cache_size: 32 * 1024, l2_cache_size: 256 * 1024, l3_cache_size: 8 * 1024 * 1024,
    cache_line_size: 64, logical_cores: 1, physical_cores: 1,
    vendor: String::new(), model: String::new(), optimization_tier: 1, simd_tier: 0,
};
/// Stub for `zipora::system::cpu_features::get_cpu_features` (the real detector reads CPUID,
/// /proc and /sys): a CPU without optional features. Same stub as in the C04 module.
pub fn cpu_none() -> &'static zipora::system::CpuFeatures {
    &CPU_NONE
}

/// Stub for `std::io::_eprint`: diagnostics on `zipora_verify!` failure paths (which then abort).
pub fn eprint_noop(_args: core::fmt::Arguments<'_>) {}

/// get(id) must be Ok and equal `want[..len]` byte for byte.
fn expect_bytes<S: BlobStore>(s: &S, id: u32, want: &[u8]) {
    let r = s.get(id);
    match &r {
        Ok(v) => {
            assert!(v.len() == want.len(), "get(id): length differs from the stored record");
            let mut i = 0;
            while i < want.len() {
                assert!(v[i] == want[i], "get(id): byte differs from the stored record");
                i += 1;
            }
        }
        Err(_) => panic!("get(id) refused a live record"),
    }
    forget(r);
    assert!(s.contains(id), "contains(id) false for a live record");
    let z = s.size(id);
    match &z {
        Ok(Some(n)) => assert!(*n == want.len(), "size(id) differs from the stored length"),
        _ => panic!("size(id) absent for a live record"),
    }
    forget(z);
}

/// id must be reported absent by get / contains / size.
fn expect_absent<S: BlobStore>(s: &S, id: u32) {
    let r = s.get(id);
    assert!(r.is_err(), "get(id) answered for an absent id");
    forget(r);
    assert!(!s.contains(id), "contains(id) true for an absent id");
    let z = s.size(id);
    match &z {
        Ok(None) | Err(_) => {}
        Ok(Some(_)) => panic!("size(id) answered for an absent id"),
    }
    forget(z);
}

// ------------------------------------------------------------------------------------------
// MemoryBlobStore: histories vs array model
// ------------------------------------------------------------------------------------------

zv_harness! {
    name: c03_mem_put_remove_put,
    prop: "C03",
    tier: probe,
    unwind: 7,
    stubs: [
        alloc::fmt::format => crate::common::stubs::fmt_format,
        std::hash::RandomState::new => crate::c03_blobstore::fixed_random_state
    ],
    targets: "MemoryBlobStore::new, put (next_record_id), remove, get, contains, size, len",
    bounds: "history put(a:2 bytes) put(b:0 bytes) remove(x) put(c:1 byte) remove(y) then query every id 0..=4; x,y symbolic in 0..=4 (live, already removed, never issued); record contents symbolic; SipHash keys fixed",
    oracle: "3-slot array model: put returns fresh ids; remove(x) is Ok iff x is live; afterwards get/contains/size of every id agree with the model byte for byte; len == number of live records",
    body: {
        let mut s = MemoryBlobStore::new();
        let a: [u8; 2] = vany();
        let b: [u8; 0] = [];
        let c: [u8; 1] = vany();
        let x: u8 = vany();
        let y: u8 = vany();
        assume(x <= 4 && y <= 4);

        let ra = s.put(&a);
        let ia = match &ra { Ok(i) => *i, Err(_) => panic!("put refused") };
        forget(ra);
        let rb = s.put(&b);
        let ib = match &rb { Ok(i) => *i, Err(_) => panic!("put refused") };
        forget(rb);
        assert!(ia != ib, "same id handed out twice");
        let mut live_a = true;
        let mut live_b = true;

        // remove(x) with a concrete key per arm
        let mut k = 0u32;
        while k <= 4 {
            if x as u32 == k {
                let was = (k == ia && live_a) || (k == ib && live_b);
                let r = s.remove(k);
                assert!(r.is_ok() == was, "remove(id) result disagrees with liveness");
                forget(r);
                if k == ia { live_a = false; }
                if k == ib { live_b = false; }
            }
            k += 1;
        }

        let rc = s.put(&c);
        let ic = match &rc { Ok(i) => *i, Err(_) => panic!("put refused") };
        forget(rc);
        assert!(ic != ia && ic != ib, "id of a (possibly removed) record reused");
        let mut live_c = true;

        let mut k = 0u32;
        while k <= 4 {
            if y as u32 == k {
                let was = (k == ia && live_a) || (k == ib && live_b) || (k == ic && live_c);
                let r = s.remove(k);
                assert!(r.is_ok() == was, "remove(id) result disagrees with liveness");
                forget(r);
                if k == ia { live_a = false; }
                if k == ib { live_b = false; }
                if k == ic { live_c = false; }
            }
            k += 1;
        }

        let mut k = 0u32;
        while k <= 4 {
            if k == ia && live_a { expect_bytes(&s, k, &a); }
            else if k == ib && live_b { expect_bytes(&s, k, &b); }
            else if k == ic && live_c { expect_bytes(&s, k, &c); }
            else { expect_absent(&s, k); }
            k += 1;
        }
        let n = live_a as usize + live_b as usize + live_c as usize;
        assert!(s.len() == n, "len() differs from the number of live records");
        assert!(s.is_empty() == (n == 0));
        zcover!(!live_a && live_c && live_b, "first record removed, later record live");
        zcover!(n == 3, "nothing removed");
        zcover!(n == 1, "two removed");
        forget(s);
    }
}

zv_harness! {
    name: c03_mem_put_put_remove,
    prop: "C03",
    tier: probe,
    unwind: 5,
    stubs: [
        alloc::fmt::format => crate::common::stubs::fmt_format,
        std::hash::RandomState::new => crate::c03_blobstore::fixed_random_state
    ],
    targets: "MemoryBlobStore::new, put (next_record_id), remove, get, contains, size, len",
    bounds: "history put(a:1 byte) put(b:0 bytes) remove(x) with x symbolic in 1..=3 (first, second, never issued), then query ids 1,2,3; record content symbolic; SipHash keys fixed",
    oracle: "2-slot array model: fresh distinct ids; remove(x) Ok iff x live; afterwards get/contains/size of ids 1..=3 agree with the model byte for byte; len == number of live records",
    body: {
        let mut s = MemoryBlobStore::new();
        let a: [u8; 1] = vany();
        let b: [u8; 0] = [];
        let x: u8 = vany();
        assume(x >= 1 && x <= 3);
        let ra = s.put(&a);
        let ia = match &ra { Ok(i) => *i, Err(_) => panic!("put refused") };
        forget(ra);
        let rb = s.put(&b);
        let ib = match &rb { Ok(i) => *i, Err(_) => panic!("put refused") };
        forget(rb);
        assert!(ia != ib && ia != 3 && ib != 3 && ia >= 1 && ib >= 1 && ia <= 2 && ib <= 2, "ids are 1 and 2 in some order");
        let mut live_a = true;
        let mut live_b = true;
        let mut k = 1u32;
        while k <= 3 {
            if x as u32 == k {
                let was = k == ia || k == ib;
                let r = s.remove(k);
                assert!(r.is_ok() == was, "remove(id) result disagrees with liveness");
                forget(r);
                if k == ia { live_a = false; }
                if k == ib { live_b = false; }
            }
            k += 1;
        }
        if live_a { expect_bytes(&s, ia, &a); } else { expect_absent(&s, ia); }
        if live_b { expect_bytes(&s, ib, &b); } else { expect_absent(&s, ib); }
        expect_absent(&s, 3);
        assert!(s.len() == live_a as usize + live_b as usize, "len() differs from the number of live records");
        zcover!(!live_a, "first record removed");
        zcover!(!live_b, "empty record removed");
        zcover!(live_a && live_b, "never-issued id removed");
        forget(s);
    }
}

zv_harness! {
    name: c03_zerolen_hist,
    prop: "C03",
    tier: probe,
    unwind: 8,
    stubs: [alloc::fmt::format => crate::common::stubs::fmt_format],
    targets: "ZeroLengthBlobStore::new/finish, put, get, remove, contains, size, len",
    bounds: "finish(k) with k symbolic in 0..=2, then put(empty), put(1 symbolic byte) (must be refused), put(empty); query a symbolic id (any u32); remove(symbolic id)",
    oracle: "ids are k, k+1; non-empty put is Err and changes nothing; get(id)==empty / contains / size==Some(0) iff id < len; remove never succeeds and never changes len",
    body: {
        let k = vrange_usize(0, 2);
        let mut s = ZeroLengthBlobStore::finish(k);
        assert!(s.len() == k);
        let r0 = s.put(&[]);
        match &r0 { Ok(i) => assert!(*i as usize == k, "id of first put"), Err(_) => panic!("empty put refused") }
        forget(r0);
        let byte: u8 = vany();
        let r1 = s.put(&[byte]);
        assert!(r1.is_err(), "non-empty record accepted by ZeroLengthBlobStore");
        forget(r1);
        let r2 = s.put(&[]);
        match &r2 { Ok(i) => assert!(*i as usize == k + 1, "id of second put"), Err(_) => panic!("empty put refused") }
        forget(r2);
        assert!(s.len() == k + 2);
        let id: u32 = vany();
        let rr = s.remove(id);
        assert!(rr.is_err());
        forget(rr);
        assert!(s.len() == k + 2, "remove changed len");
        if (id as usize) < k + 2 {
            expect_bytes(&s, id, &[]);
        } else {
            expect_absent(&s, id);
        }
        zcover!(id as usize == k + 1, "last issued id queried");
        zcover!(id as usize == k + 2, "first never-issued id queried");
        forget(s);
    }
}

// ------------------------------------------------------------------------------------------
// Bulk builders: record i == input i
// ------------------------------------------------------------------------------------------

/// Records of concrete lengths L0,L1,L2 (L2 == 9 means "absent": two records) with symbolic bytes.
fn sym_records<const L0: usize, const L1: usize, const L2: usize>() -> Vec<Vec<u8>> {
    let r0: [u8; L0] = vany();
    let r1: [u8; L1] = vany();
    let mut v: Vec<Vec<u8>> = Vec::with_capacity(3);
    v.push(r0.to_vec());
    v.push(r1.to_vec());
    if L2 != 9 {
        let r2: [u8; 2] = vany();
        v.push(r2[..L2].to_vec());
    }
    v
}

fn check_built<S: BlobStore>(s: &S, data: &Vec<Vec<u8>>) {
    assert!(s.len() == data.len(), "len() differs from the number of input records");
    let mut i = 0;
    while i < data.len() {
        expect_bytes(s, i as u32, &data[i]);
        i += 1;
    }
    expect_absent(s, data.len() as u32);
}

macro_rules! c03_mixedlen {
    ($name:ident, $tier:ident, $unwind:literal, $l0:literal, $l1:literal, $l2:literal, $fixed:literal) => {
        zv_harness! {
            name: $name,
            prop: "C03",
            tier: $tier,
            unwind: $unwind,
            stubs: [
                alloc::fmt::format => crate::common::stubs::fmt_format,
                std::arch::x86_64::__cpuid_count => crate::common::stubs::cpuid_zero,
                zipora::system::cpu_features::get_cpu_features => crate::c03_blobstore::cpu_none,
                std::io::_eprint => crate::c03_blobstore::eprint_noop,
                std::io::_eprint => crate::c03_blobstore::eprint_noop,
        std::rt::thread_cleanup => crate::common::stubs::noop
            ],
            targets: "MixedLenBlobStore::build_from_with_fixed_len, get, size, contains, len (RankSelectInterleaved256 bitmap + UintVecMin0 offsets)",
            bounds: "instance = (len0, len1, len2 (9 = no third record), fixed_len): records of these concrete lengths with symbolic bytes; CPU feature detection stubbed to a CPU without optional features",
            oracle: "build is Ok; len()==n; get(i)==input[i] byte for byte, size(i)==len_i, contains(i); id n is absent",
            body: {
                let data = sym_records::<$l0, $l1, $l2>();
                let r = MixedLenBlobStore::build_from_with_fixed_len(&data, $fixed);
                match &r {
                    Ok(s) => { check_built(s, &data); zcover!(true, "built and read back"); }
                    Err(_) => panic!("build refused valid records"),
                }
                forget(r);
                forget(data);
            }
        }
    };
}
c03_mixedlen!(c03_mixedlen_r2_l1_2_f1, probe, 18, 1, 2, 9, 1);
c03_mixedlen!(c03_mixedlen_r3_l1_0_2_f1, probe, 18, 1, 0, 2, 1);
c03_mixedlen!(c03_mixedlen_r3_l0_2_0_f0, probe, 18, 0, 2, 0, 0);
c03_mixedlen!(c03_mixedlen_r3_l2_2_2_f2, probe, 18, 2, 2, 2, 2);
c03_mixedlen!(c03_mixedlen_r3_l2_1_2_f5, probe, 18, 2, 1, 2, 5);

macro_rules! c03_mixedlen_auto {
    ($name:ident, $tier:ident, $unwind:literal, $l0:literal, $l1:literal, $l2:literal) => {
        zv_harness! {
            name: $name,
            prop: "C03",
            tier: $tier,
            unwind: $unwind,
            stubs: [
                alloc::fmt::format => crate::common::stubs::fmt_format,
                std::arch::x86_64::__cpuid_count => crate::common::stubs::cpuid_zero,
                zipora::system::cpu_features::get_cpu_features => crate::c03_blobstore::cpu_none,
                std::io::_eprint => crate::c03_blobstore::eprint_noop,
                std::io::_eprint => crate::c03_blobstore::eprint_noop,
        std::rt::thread_cleanup => crate::common::stubs::noop,
                std::hash::RandomState::new => crate::c03_blobstore::fixed_random_state
            ],
            targets: "MixedLenBlobStore::build_from (determine_fixed_length over a HashMap of lengths), get, size, contains, len",
            bounds: "instance = (len0, len1, len2): records of these concrete lengths with symbolic bytes; SipHash keys fixed; CPU feature detection stubbed to a CPU without optional features",
            oracle: "build is Ok; len()==n; get(i)==input[i] byte for byte, size(i)==len_i; id n is absent",
            body: {
                let data = sym_records::<$l0, $l1, $l2>();
                let r = MixedLenBlobStore::build_from(&data);
                match &r {
                    Ok(s) => { check_built(s, &data); zcover!(true, "built and read back"); }
                    Err(_) => panic!("build refused valid records"),
                }
                forget(r);
                forget(data);
            }
        }
    };
}
c03_mixedlen_auto!(c03_mixedlen_auto_r3_l1_2_1, probe, 18, 1, 2, 1);

macro_rules! c03_simplezip {
    ($name:ident, $tier:ident, $unwind:literal, $l0:literal, $l1:literal, $l2:literal) => {
        zv_harness! {
            name: $name,
            prop: "C03",
            tier: $tier,
            unwind: $unwind,
            stubs: [
                alloc::fmt::format => crate::common::stubs::fmt_format,
                std::hash::RandomState::new => crate::c03_blobstore::fixed_random_state
            ],
            targets: "SimpleZipBlobStore::build_from (fragment_record, build_strpool dedup via HashMap<Vec<u8>,usize>), get (get_record_append_imp), size, contains, len",
            bounds: "instance = (len0, len1, len2 (9 = no third record)): records of these concrete lengths with symbolic bytes (equal records => shared fragment); config min_frag_len=1,max_frag_len=1 so a 2-byte record is two fragments; SipHash keys fixed",
            oracle: "build is Ok; len()==n; get(i)==input[i] byte for byte, size(i)==len_i; id n is absent",
            body: {
                let data = sym_records::<$l0, $l1, $l2>();
                let cfg = SimpleZipConfig { min_frag_len: 1, max_frag_len: 1, delimiters: vec![b' '] };
                let r = SimpleZipBlobStore::build_from(&data, &cfg);
                match &r {
                    Ok(s) => {
                        check_built(s, &data);
                        zcover!(data[0][0] == data[1][0], "duplicate fragment shared");
                        zcover!(data[0][0] != data[1][0], "distinct fragments");
                    }
                    Err(_) => panic!("build refused valid records"),
                }
                forget(r);
                forget(cfg);
                forget(data);
            }
        }
    };
}
c03_simplezip!(c03_simplezip_r2_l1_1, probe, 18, 1, 1, 9);
c03_simplezip!(c03_simplezip_r3_l1_2_0, probe, 18, 1, 2, 0);

fn zo_config(checksum_level: u8) -> ZipOffsetBlobStoreConfig {
    ZipOffsetBlobStoreConfig {
        compress_level: 0,
        checksum_level,
        offset_config: SortedUintVecConfig { log2_block_units: 4, offset_width: 8, sample_width: 16, use_simd: false },
        use_secure_memory: false,
        enable_simd: false,
    }
}

macro_rules! c03_zipoffset {
    ($name:ident, $tier:ident, $unwind:literal, $l0:literal, $l1:literal, $l2:literal, $ck:literal) => {
        zv_harness! {
            name: $name,
            prop: "C03",
            tier: $tier,
            unwind: $unwind,
            stubs: [
                alloc::fmt::format => crate::common::stubs::fmt_format,
                std::io::_eprint => crate::c03_blobstore::eprint_noop,
                std::io::_eprint => crate::c03_blobstore::eprint_noop,
        std::rt::thread_cleanup => crate::common::stubs::noop
            ],
            targets: "ZipOffsetBlobStoreBuilder::with_config, add_record, finish; ZipOffsetBlobStore::get (get_record_impl), size, contains, len",
            bounds: "instance = (len0, len1, len2 (9 = no third record), checksum_level): records of these concrete lengths with symbolic bytes; compress_level 0 (no zstd); offset index block 16, widths 8/16, SIMD off",
            oracle: "add_record returns id i; finish is Ok; len()==n; get(i)==input[i] byte for byte, size(i)==len_i; id n is absent",
            body: {
                let r0: [u8; $l0] = vany();
                let r1: [u8; $l1] = vany();
                let r2f: [u8; 2] = vany();
                let n: usize = if $l2 == 9 { 2 } else { 3 };
                let r2: &[u8] = if $l2 == 9 { &r2f[..0] } else { &r2f[..$l2] };
                let recs: [&[u8]; 3] = [&r0, &r1, r2];
                let rb = ZipOffsetBlobStoreBuilder::with_config(zo_config($ck));
                let mut b = match rb { Ok(b) => b, Err(e) => { forget(e); panic!("builder refused a valid config") } };
                let mut i = 0;
                while i < n {
                    let r = b.add_record(recs[i]);
                    match &r { Ok(id) => assert!(*id as usize == i, "add_record id"), Err(_) => panic!("add_record refused") }
                    forget(r);
                    i += 1;
                }
                assert!(b.len() == n);
                let r = b.finish();
                match &r {
                    Ok(s) => {
                        assert!(s.len() == n, "len() differs from the number of added records");
                        let mut i = 0;
                        while i < n { expect_bytes(s, i as u32, recs[i]); i += 1; }
                        expect_absent(s, n as u32);
                        zcover!(true, "built and read back");
                    }
                    Err(_) => panic!("finish refused valid records"),
                }
                forget(r);
            }
        }
    };
}
c03_zipoffset!(c03_zipoffset_r2_l1_2_ck0, probe, 6, 1, 2, 9, 0);
c03_zipoffset!(c03_zipoffset_r2_l1_0_ck0, probe, 6, 1, 0, 9, 0);
c03_zipoffset!(c03_zipoffset_r3_l1_0_2_ck2, probe, 6, 1, 0, 2, 2);

zv_harness! {
    name: c03_zipoffset_saveload_r2,
    prop: "C03",
    tier: probe,
    unwind: 22,
    stubs: [
        alloc::fmt::format => crate::common::stubs::fmt_format,
        std::io::_eprint => crate::c03_blobstore::eprint_noop,
        std::rt::thread_cleanup => crate::common::stubs::noop
    ],
    targets: "ZipOffsetBlobStoreBuilder::{add_record, finish}, ZipOffsetBlobStore::save_to_writer (Vec<u8>), load_from_reader (&[u8])",
    bounds: "2 records of lengths 1 and 2 with symbolic bytes, no compression, no checksum; image written to a Vec and read back from the slice",
    oracle: "save is Ok, load is Ok, and the loaded store answers len/get/size/contains exactly as the saved one (compared to the saved store itself, not to the input)",
    body: {
        let d0: [u8; 1] = vany();
        let d1: [u8; 2] = vany();
        let mut b = match ZipOffsetBlobStoreBuilder::with_config(zo_config(0)) { Ok(b) => b, Err(e) => { forget(e); panic!("config") } };
        let r0 = b.add_record(&d0); forget(r0);
        let r1 = b.add_record(&d1); forget(r1);
        // what the builder promises: 2 records
        assert!(b.len() == 2);
        let rs = b.finish();
        let s = match rs { Ok(s) => s, Err(e) => { forget(e); panic!("finish") } };
        let mut img: Vec<u8> = Vec::with_capacity(256);
        let w = s.save_to_writer(&mut img);
        assert!(w.is_ok(), "save_to_writer failed");
        forget(w);
        let mut rd: &[u8] = &img[..];
        let rl = ZipOffsetBlobStore::load_from_reader(&mut rd);
        match &rl {
            Ok(t) => {
                assert!(t.len() == s.len(), "loaded store has a different number of records");
                let mut i = 0u32;
                while i < 3 {
                    assert!(t.contains(i) == s.contains(i), "contains differs after save->load");
                    let g0 = s.get(i);
                    let g1 = t.get(i);
                    match (&g0, &g1) {
                        (Ok(x), Ok(y)) => {
                            assert!(x.len() == y.len(), "record length differs after save->load");
                            let mut j = 0;
                            while j < x.len() { assert!(x[j] == y[j], "record byte differs after save->load"); j += 1; }
                        }
                        (Err(_), Err(_)) => {}
                        _ => panic!("get answers differently after save->load"),
                    }
                    forget(g0);
                    forget(g1);
                    i += 1;
                }
                // vacuity witness: the saved store must actually hold the 2 records the builder reported
                zcover!(s.len() == 2, "saved store holds the 2 built records; saved, loaded and compared");
            }
            Err(_) => panic!("load_from_reader refused an image just written"),
        }
        forget(rl);
        forget(img);
        forget(s);
    }
}

zv_harness! {
    name: c03_zipoffset_r1_l1,
    prop: "C03",
    tier: probe,
    unwind: 6,
    stubs: [
        alloc::fmt::format => crate::common::stubs::fmt_format,
        std::io::_eprint => crate::c03_blobstore::eprint_noop,
        std::rt::thread_cleanup => crate::common::stubs::noop
    ],
    targets: "ZipOffsetBlobStoreBuilder::with_config, add_record, len, finish; ZipOffsetBlobStore::len, get, contains",
    bounds: "one record of one symbolic byte; compress_level 0, checksum_level 0; offset index block 16, widths 8/16, SIMD off",
    oracle: "add_record returns id 0; finish is Ok; the store has len()==1, contains(0), get(0)==[byte]; id 1 is absent",
    body: {
        let x: u8 = vany();
        let rb = ZipOffsetBlobStoreBuilder::with_config(zo_config(0));
        let mut b = match rb { Ok(b) => b, Err(e) => { forget(e); panic!("builder refused a valid config") } };
        let r = b.add_record(&[x]);
        match &r { Ok(id) => assert!(*id == 0, "add_record id"), Err(_) => panic!("add_record refused") }
        forget(r);
        assert!(b.len() == 1);
        let r = b.finish();
        match &r {
            Ok(s) => {
                assert!(s.len() == 1, "finish() lost the record: len() differs from the number of added records");
                expect_bytes(s, 0, &[x]);
                expect_absent(s, 1);
                zcover!(true, "built and read back");
            }
            Err(_) => panic!("finish refused a valid record"),
        }
        forget(r);
    }
}

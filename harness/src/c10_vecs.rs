//! C10 — vectors and queues match their standard-library models (fixed-capacity array model,
//! element types `u8` and `Tracked`, which counts constructions/drops and traps double drops).
use crate::common::*;
use zipora::containers::specialized::{AutoGrowCircularQueue, FixedCircularQueue, ValVec32};
use zipora::containers::FastVec;

// ------------------------------------------------------------------------------------------
// element types
// ------------------------------------------------------------------------------------------

const MAX_IDS: usize = 48;
static mut CREATED: usize = 0;
static mut DROPPED: usize = 0;
static mut ALIVE: [bool; MAX_IDS] = [false; MAX_IDS];

static mut VALS: [u8; MAX_IDS] = [0; MAX_IDS];

/// Element that counts constructions and drops; every instance has an id (its only field, one
/// byte, so that element moves cost the solver as little as `u8`), the payload lives in a side
/// table; dropping an id that is not alive (a bitwise copy dropped a second time) is an assertion
/// failure.
pub struct Tracked {
    id: u8,
}
impl Tracked {
    fn new(v: u8) -> Tracked {
        unsafe {
            let id = CREATED;
            assert!(id < MAX_IDS, "harness: too many Tracked instances for the id table");
            CREATED += 1;
            ALIVE[id] = true;
            VALS[id] = v;
            Tracked { id: id as u8 }
        }
    }
}
impl Clone for Tracked {
    fn clone(&self) -> Tracked {
        Tracked::new(self.val())
    }
}
impl Drop for Tracked {
    fn drop(&mut self) {
        unsafe {
            assert!((self.id as usize) < MAX_IDS && ALIVE[self.id as usize], "element dropped twice");
            ALIVE[self.id as usize] = false;
            DROPPED += 1;
        }
    }
}

pub trait Elem: Clone {
    const TRACKED: bool;
    fn mk(v: u8) -> Self;
    fn val(&self) -> u8;
}
impl Elem for u8 {
    const TRACKED: bool = false;
    fn mk(v: u8) -> u8 {
        v
    }
    fn val(&self) -> u8 {
        *self
    }
}
impl Elem for Tracked {
    const TRACKED: bool = true;
    fn mk(v: u8) -> Tracked {
        Tracked::new(v)
    }
    fn val(&self) -> u8 {
        unsafe { VALS[self.id as usize % MAX_IDS] }
    }
}

/// After the container is gone: every constructed element was dropped exactly once.
fn assert_balanced() {
    unsafe {
        assert!(DROPPED <= CREATED, "more drops than constructions");
        assert!(DROPPED == CREATED, "element leaked (constructed but never dropped)");
    }
}

// ------------------------------------------------------------------------------------------
// the model: what a Vec / VecDeque of at most CAP elements would hold
// ------------------------------------------------------------------------------------------

const CAP: usize = 8;

#[derive(Clone, Copy)]
struct Model {
    v: [u8; CAP],
    n: usize,
}
impl Model {
    fn new() -> Model {
        Model { v: [0; CAP], n: 0 }
    }
    fn push(&mut self, x: u8) {
        self.v[self.n] = x;
        self.n += 1;
    }
    fn pop(&mut self) -> Option<u8> {
        if self.n == 0 {
            None
        } else {
            self.n -= 1;
            Some(self.v[self.n])
        }
    }
    fn insert(&mut self, at: usize, x: u8) {
        let mut i = CAP - 1;
        while i > 0 {
            if i > at && i <= self.n {
                self.v[i] = self.v[i - 1];
            }
            i -= 1;
        }
        self.v[at] = x;
        self.n += 1;
    }
    fn remove(&mut self, at: usize) -> u8 {
        let x = self.v[at];
        let mut i = 0;
        while i + 1 < CAP {
            if i >= at && i + 1 < self.n {
                self.v[i] = self.v[i + 1];
            }
            i += 1;
        }
        self.n -= 1;
        x
    }
    fn pop_front(&mut self) -> Option<u8> {
        if self.n == 0 {
            None
        } else {
            Some(self.remove(0))
        }
    }
    fn resize(&mut self, n: usize, x: u8) {
        let mut i = 0;
        while i < CAP {
            if i >= self.n && i < n {
                self.v[i] = x;
            }
            i += 1;
        }
        self.n = n;
    }
}

fn same_slice<E: Elem>(s: &[E], m: &Model) {
    assert!(s.len() == m.n, "length differs from the Vec model");
    let mut i = 0;
    while i < CAP {
        if i < m.n {
            assert!(s[i].val() == m.v[i], "element differs from the Vec model");
        }
        i += 1;
    }
}

fn opt_eq<E: Elem>(got: &Option<E>, want: Option<u8>) -> bool {
    match (got, want) {
        (None, None) => true,
        (Some(g), Some(w)) => g.val() == w,
        _ => false,
    }
}

fn small(limit: usize) -> usize {
    let x: u8 = vany();
    assume((x as usize) <= limit);
    x as usize
}

// ------------------------------------------------------------------------------------------
// FastVec
// ------------------------------------------------------------------------------------------
// op bits of MASK: 0 push, 1 pop, 2 insert, 3 remove, 4 resize, 5 clear, 6 shrink_to_fit,
//                  7 extend(2 items), 8 clone-then-diverge

fn fastvec_ops<E: Elem, const PRE: usize, const STEPS: usize, const MASK: u32>() {
    {
        let mut v: FastVec<E> = FastVec::new();
        let mut m = Model::new();
        let mut grew = false;
        let mut refused = false;
        // concrete prefix: PRE pushes of symbolic payloads (keeps the capacity concrete: 1, 2, 4, ...)
        let mut k = 0;
        while k < PRE {
            let x: u8 = vany();
            let r = v.push(E::mk(x));
            assert!(r.is_ok(), "push failed");
            forget(r);
            m.push(x);
            k += 1;
        }
        same_slice(v.as_slice(), &m);
        let mut step = 0;
        while step < STEPS {
            let op: u8 = vany();
            assume(op < 9 && (MASK >> op) & 1 == 1);
            let x: u8 = vany();
            if MASK & 1 != 0 && op == 0 {
                assume(m.n < CAP);
                let cap0 = v.capacity();
                let r = v.push(E::mk(x));
                assert!(r.is_ok(), "push failed");
                forget(r);
                m.push(x);
                grew |= cap0 > 0 && v.capacity() > cap0;
            } else if MASK & 2 != 0 && op == 1 {
                let g = v.pop();
                assert!(opt_eq(&g, m.pop()), "pop differs from the Vec model");
            } else if MASK & 4 != 0 && op == 2 {
                assume(m.n < CAP);
                let at = small(CAP);
                let r = v.insert(at, E::mk(x));
                if at > m.n {
                    assert!(r.is_err(), "insert past the end not reported");
                    refused = true;
                } else {
                    assert!(r.is_ok(), "insert failed");
                    m.insert(at, x);
                }
                forget(r);
            } else if MASK & 8 != 0 && op == 3 {
                let at = small(CAP);
                let r = v.remove(at);
                if at >= m.n {
                    assert!(r.is_err(), "remove out of range not reported");
                    refused = true;
                    forget(r);
                } else {
                    let want = m.remove(at);
                    match r {
                        Ok(g) => assert!(g.val() == want, "remove returned the wrong element"),
                        Err(e) => {
                            forget(e);
                            panic!("remove failed")
                        }
                    }
                }
            } else if MASK & 16 != 0 && op == 4 {
                let n = small(4);
                let r = v.resize(n, E::mk(x));
                assert!(r.is_ok(), "resize failed");
                forget(r);
                m.resize(n, x);
            } else if MASK & 32 != 0 && op == 5 {
                v.clear();
                m.n = 0;
            } else if MASK & 64 != 0 && op == 6 {
                let r = v.shrink_to_fit();
                assert!(r.is_ok(), "shrink_to_fit failed");
                forget(r);
                assert!(v.capacity() == v.len(), "shrink_to_fit left spare capacity");
            } else if MASK & 128 != 0 && op == 7 {
                assume(m.n + 2 <= CAP);
                let y: u8 = vany();
                let r = v.extend([E::mk(x), E::mk(y)]);
                assert!(r.is_ok(), "extend failed");
                forget(r);
                m.push(x);
                m.push(y);
            } else if MASK & 256 != 0 && op == 8 {
                assume(m.n < CAP);
                let mut c = v.clone();
                same_slice(c.as_slice(), &m);
                let r = c.push(E::mk(x));
                assert!(r.is_ok(), "push on the clone failed");
                forget(r);
                assert!(c.len() == m.n + 1, "clone did not diverge");
                // the original is untouched (checked below); the clone is dropped here
            }
            same_slice(v.as_slice(), &m);
            step += 1;
        }
        zcover!(m.n >= 3 || PRE + STEPS < 4, "three or more elements at the end");
        zcover!(grew || MASK & 1 == 0 || PRE + STEPS < 2, "a push reallocated a non-empty buffer");
        zcover!(refused || MASK & 12 == 0, "an out-of-range index was refused");
        // v is dropped here (its Drop impl is part of the claim)
    }
    if E::TRACKED {
        assert_balanced();
    }
}

use zipora::system::CpuFeatures;
static CPU_NONE: CpuFeatures = CpuFeatures {
    has_sse41: false,
    has_sse42: false,
    has_avx: false,
    has_avx2: false,
    has_avx512f: false,
    has_avx512vl: false,
    has_avx512bw: false,
    has_avx512vpopcntdq: false,
    has_bmi1: false,
    has_bmi2: false,
    has_popcnt: false,
    has_lzcnt: false,
    has_tzcnt: false,
    has_prefetchw: false,
    has_neon: false,
    has_crc32: false,
    has_crypto: false,
    has_sve: false,
    has_sve2: false,
    l1_cache_size: 32 * 1024,
    l2_cache_size: 256 * 1024,
    l3_cache_size: 8 * 1024 * 1024,
    cache_line_size: 64,
    logical_cores: 1,
    physical_cores: 1,
    vendor: String::new(),
    model: String::new(),
    optimization_tier: 1,
    simd_tier: 0,
};

/// Replacement for `zipora::system::cpu_features::get_cpu_features`: the value the real detector
/// produces on a CPU without any optional feature (`CpuFeatures::new()` + tier 1 / simd tier 0).
/// The real detector (raw_cpuid, available_parallelism, OnceLock) is not the subject of C10.
pub fn cpu_none() -> &'static CpuFeatures {
    &CPU_NONE
}

/// Plain-data element `W` bytes wide (no drop glue), so that a handful of elements already make
/// `FastVec::insert`/`remove` take their bulk path (tail >= 64 bytes: temp buffer + two `fast_copy`
/// calls) instead of `ptr::copy`. Three of its bytes are derived from the payload; `val` checks
/// that they still belong together (a torn or half-moved element is reported).
#[derive(Clone, Copy)]
pub struct Wide<const W: usize> {
    b: [u8; W],
}
impl<const W: usize> Elem for Wide<W> {
    const TRACKED: bool = false;
    fn mk(v: u8) -> Self {
        let mut b = [0u8; W];
        b[W / 2] = !v;
        b[W - 1] = v.wrapping_add(1);
        b[0] = v;
        Wide { b }
    }
    fn val(&self) -> u8 {
        assert!(
            self.b[W / 2] == !self.b[0] && self.b[W - 1] == self.b[0].wrapping_add(1),
            "element bytes torn (first/middle/last byte of one element no longer match)"
        );
        self.b[0]
    }
}

/// PRE pushes, then one insert or one remove at index AT (AT = 255: symbolic index) — with wide
/// elements the shifted tail is above the 64-byte bulk threshold.
fn fastvec_bulk<E: Elem, const PRE: usize, const AT: usize, const INSERT: bool>() {
    let mut v: FastVec<E> = FastVec::new();
    let mut m = Model::new();
    let mut k = 0;
    while k < PRE {
        let x: u8 = vany();
        let r = v.push(E::mk(x));
        assert!(r.is_ok(), "push failed");
        forget(r);
        m.push(x);
        k += 1;
    }
    let at = if AT == 255 { small(PRE) } else { AT };
    let x: u8 = vany();
    let tail_bytes;
    if INSERT {
        tail_bytes = if at <= PRE { (PRE - at) * core::mem::size_of::<E>() } else { 0 };
        let r = v.insert(at, E::mk(x));
        if at > m.n {
            assert!(r.is_err(), "insert past the end not reported");
        } else {
            assert!(r.is_ok(), "insert failed");
            m.insert(at, x);
        }
        forget(r);
    } else {
        tail_bytes = if at < PRE { (PRE - at - 1) * core::mem::size_of::<E>() } else { 0 };
        let r = v.remove(at);
        if at >= m.n {
            assert!(r.is_err(), "remove out of range not reported");
            forget(r);
        } else {
            let want = m.remove(at);
            match r {
                Ok(g) => assert!(g.val() == want, "remove returned the wrong element"),
                Err(e) => {
                    forget(e);
                    panic!("remove failed")
                }
            }
        }
    }
    same_slice(v.as_slice(), &m);
    // one more push after the shift: the vector is still usable and the length is right
    let y: u8 = vany();
    let r = v.push(E::mk(y));
    assert!(r.is_ok(), "push after the bulk shift failed");
    forget(r);
    m.push(y);
    same_slice(v.as_slice(), &m);
    zcover!(tail_bytes >= 64, "the shifted tail is at or above the 64-byte bulk threshold");
    zcover!(tail_bytes > 256 || core::mem::size_of::<E>() < 128, "the shifted tail is above 256 bytes (128-byte elements)");
}

macro_rules! c10_fastvec_bulk {
    ($name:ident, $tier:ident, $unwind:literal, $w:literal, $pre:literal, $at:literal, $ins:literal) => {
        zv_harness! {
            name: $name,
            prop: "C10",
            tier: $tier,
            unwind: $unwind,
            stubs: [alloc::fmt::format => crate::common::stubs::fmt_format,
                    zipora::system::cpu_features::get_cpu_features => crate::c10_vecs::cpu_none,
                    std::arch::x86_64::__cpuid_count => crate::common::stubs::cpuid_zero],
            targets: "containers::FastVec::{insert, remove} bulk path for element types without drop glue and a shifted tail >= 64 bytes (temporary Vec<u8> + memory::simd_ops::fast_copy twice -> SimdMemOps::copy_nonoverlapping, scalar tier), + push, as_slice, drop",
            bounds: "element = W-byte plain-data struct (instance: W), PRE pushes of symbolic payloads (instance: PRE <= 7), then ONE insert (INSERT=true) or remove at index AT (255 = symbolic index 0..=PRE, out-of-range included), then one push; CPU modelled without vector extensions (scalar copy kernel; the vector kernels are C14's)",
            oracle: "as_slice() equals the fixed-array Vec model after the shift and after the following push; every element's first/middle/last byte still belong together; remove returns the model's element; out-of-range index returns Err and changes nothing",
            body: { crate::common::stubs::native_tier(cpu_none); fastvec_bulk::<Wide<$w>, $pre, $at, $ins>() }
        }
    };
}
c10_fastvec_bulk!(c10_fastvec_bulk_w32_pre4_insert_anyat, thorough, 10, 32, 4, 255, true);
c10_fastvec_bulk!(c10_fastvec_bulk_w32_pre4_remove_anyat, quick, 10, 32, 4, 255, false);
c10_fastvec_bulk!(c10_fastvec_bulk_w128_pre4_insert_at0, quick, 10, 128, 4, 0, true);
c10_fastvec_bulk!(c10_fastvec_bulk_w128_pre4_insert_at1, quick, 10, 128, 4, 1, true);
c10_fastvec_bulk!(c10_fastvec_bulk_w128_pre5_remove_at0, quick, 10, 128, 5, 0, false);
c10_fastvec_bulk!(c10_fastvec_bulk_w128_pre6_insert_anyat, thorough, 10, 128, 6, 255, true);
c10_fastvec_bulk!(c10_fastvec_bulk_w128_pre7_remove_anyat, thorough, 10, 128, 7, 255, false);

macro_rules! c10_fastvec {
    ($name:ident, $tier:ident, $unwind:literal, $elem:ty, $pre:literal, $steps:literal, $mask:literal) => {
        zv_harness! {
            name: $name,
            prop: "C10",
            tier: $tier,
            unwind: $unwind,
            stubs: [alloc::fmt::format => crate::common::stubs::fmt_format],
            targets: "containers::FastVec::{new, push, pop, insert, remove, resize, clear, shrink_to_fit, extend, clone, as_slice, drop} (+ ensure_capacity, realloc)",
            bounds: "PRE pushes of symbolic payloads, then STEPS symbolic operations from the instance's op mask (bit0 push, 1 pop, 2 insert, 3 remove, 4 resize(<=4), 5 clear, 6 shrink_to_fit, 7 extend(2), 8 clone-then-push-on-clone), symbolic u8 payloads and indices 0..=8, length kept <= 8; element type from the instance (u8 or drop-counting Tracked); instance: elem, PRE, STEPS, mask",
            oracle: "after every operation as_slice() equals a fixed-array Vec model; pop/remove return the model's element; out-of-range insert/remove return Err and change nothing; Tracked: no element dropped twice, constructions == drops after the container is dropped",
            body: { fastvec_ops::<$elem, $pre, $steps, $mask>() }
        }
    };
}
// unwind: model loops run CAP=8 times
c10_fastvec!(c10_fastvec_u8_pre1_pushpop_ops2, quick, 10, u8, 1, 2, 0x003);
c10_fastvec!(c10_fastvec_tracked_pre2_insert_remove_ops1, quick, 10, Tracked, 2, 1, 0x00c);
c10_fastvec!(c10_fastvec_u8_pre2_pushpop_ins_rem_ops2, probe, 10, u8, 2, 2, 0x00f);
c10_fastvec!(c10_fastvec_tracked_pre2_pushpop_ins_rem_ops2, probe, 10, Tracked, 2, 2, 0x00f);
c10_fastvec!(c10_fastvec_tracked_pre1_resize_clear_shrink_ops2, thorough, 10, Tracked, 1, 2, 0x071);
c10_fastvec!(c10_fastvec_tracked_pre1_extend_clone_ops2, probe, 10, Tracked, 1, 2, 0x183);
c10_fastvec!(c10_fastvec_u8_pre0_pushpop_ins_rem_ops3, probe, 10, u8, 0, 3, 0x00f);
c10_fastvec!(c10_fastvec_u8_pre2_all_ops3, probe, 10, u8, 2, 3, 0x1ff);
c10_fastvec!(c10_fastvec_tracked_pre2_all_ops3, probe, 10, Tracked, 2, 3, 0x1ff);

// ------------------------------------------------------------------------------------------
// ValVec32
// ------------------------------------------------------------------------------------------
// op bits: 0 push, 1 pop, 2 get(i), 3 set(i,x), 4 clear, 5 extend_from_slice(2), 6 clone, 7 reserve(k)

/// Stub for the private `valvec32::get_usable_size` (FFI `malloc_usable_size`): the least
/// generous legal answer, exactly the requested size.
pub fn usable_size_exact(_p: *mut u8, size: usize) -> usize {
    size
}

fn valvec_ops<E: Elem, const STEPS: usize, const MASK: u32>() {
    {
        let mut v: ValVec32<E> = ValVec32::new();
        let mut m = Model::new();
        let mut refused = false;
        let mut overwrote = false;
        let mut step = 0;
        while step < STEPS {
            let op: u8 = vany();
            assume(op < 8 && (MASK >> op) & 1 == 1);
            let x: u8 = vany();
            if MASK & 1 != 0 && op == 0 {
                assume(m.n < CAP);
                let r = v.push(E::mk(x));
                assert!(r.is_ok(), "push failed");
                forget(r);
                m.push(x);
            } else if MASK & 2 != 0 && op == 1 {
                let g = v.pop();
                assert!(opt_eq(&g, m.pop()), "pop differs from the Vec model");
            } else if MASK & 4 != 0 && op == 2 {
                let at = small(CAP);
                match v.get(at as u32) {
                    Some(g) => assert!(at < m.n && g.val() == m.v[at], "get differs from the Vec model"),
                    None => {
                        assert!(at >= m.n, "get refused a valid index");
                        refused = true;
                    }
                }
            } else if MASK & 8 != 0 && op == 3 {
                let at = small(CAP);
                let r = v.set(at as u32, E::mk(x));
                if at >= m.n {
                    assert!(r.is_err(), "set out of range not reported");
                    refused = true;
                } else {
                    assert!(r.is_ok(), "set failed");
                    m.v[at] = x;
                    overwrote = true;
                }
                forget(r);
            } else if MASK & 16 != 0 && op == 4 {
                v.clear();
                m.n = 0;
            } else if MASK & 32 != 0 && op == 5 {
                assume(m.n + 2 <= CAP);
                let y: u8 = vany();
                let items = [E::mk(x), E::mk(y)];
                let r = v.extend_from_slice(&items);
                assert!(r.is_ok(), "extend_from_slice failed");
                forget(r);
                m.push(x);
                m.push(y);
            } else if MASK & 64 != 0 && op == 6 {
                let c = v.clone();
                same_slice(c.as_slice(), &m);
            } else if MASK & 128 != 0 && op == 7 {
                let k = small(4);
                let r = v.reserve(k as u32);
                assert!(r.is_ok(), "reserve failed");
                forget(r);
                assert!(v.capacity_usize() >= m.n + k, "reserve did not provide the capacity");
            }
            same_slice(v.as_slice(), &m);
            step += 1;
        }
        zcover!(m.n >= 2, "two or more elements at the end");
        zcover!(refused || MASK & 12 == 0, "an out-of-range index was refused");
        zcover!(overwrote || MASK & 8 == 0, "set overwrote a live element");
    }
    if E::TRACKED {
        assert_balanced();
    }
}

macro_rules! c10_valvec {
    ($name:ident, $tier:ident, $unwind:literal, $elem:ty, $steps:literal, $mask:literal) => {
        zv_harness! {
            name: $name,
            prop: "C10",
            tier: $tier,
            unwind: $unwind,
            stubs: [alloc::fmt::format => crate::common::stubs::fmt_format,
                    zipora::containers::specialized::valvec32::get_usable_size => crate::c10_vecs::usable_size_exact],
            targets: "containers::specialized::ValVec32::{new, push (+push_slow, grow_to, larger_capacity), pop, get, set, clear, extend_from_slice, clone (with_capacity), reserve, as_slice, drop}",
            bounds: "STEPS symbolic operations from the instance's op mask (bit0 push, 1 pop, 2 get, 3 set, 4 clear, 5 extend_from_slice(2), 6 clone, 7 reserve(<=4)), symbolic u8 payloads and indices 0..=8, length kept <= 8; malloc_usable_size stubbed to the requested size; instance: elem, STEPS, mask",
            oracle: "after every operation as_slice() equals a fixed-array Vec model; pop/get return the model's element; out-of-range get = None, set = Err; Tracked: no element dropped twice, constructions == drops after the container is dropped",
            body: { valvec_ops::<$elem, $steps, $mask>() }
        }
    };
}
c10_valvec!(c10_valvec32_u8_pushpop_getset_ops3, quick, 10, u8, 3, 0x0f);
c10_valvec!(c10_valvec32_tracked_pushpop_clear_ops3, quick, 10, Tracked, 3, 0x13);
c10_valvec!(c10_valvec32_tracked_push_set_ops3, quick, 10, Tracked, 3, 0x09);
c10_valvec!(c10_valvec32_tracked_push_clone_ops3, quick, 10, Tracked, 3, 0x41);
c10_valvec!(c10_valvec32_tracked_extend_clone_reserve_ops3, probe, 10, Tracked, 3, 0xe1);
c10_valvec!(c10_valvec32_u8_all_ops4, probe, 10, u8, 4, 0xff);
c10_valvec!(c10_valvec32_tracked_all_ops4, probe, 10, Tracked, 4, 0xff);

// ------------------------------------------------------------------------------------------
// FixedCircularQueue<_, 4>
// ------------------------------------------------------------------------------------------

fn fixedq_ops<E: Elem, const STEPS: usize>() {
    {
        let mut q: FixedCircularQueue<E, 4> = FixedCircularQueue::new();
        let mut m = Model::new();
        let mut refused = false;
        let mut wrapped = false;
        let mut pushes = 0;
        let mut step = 0;
        while step < STEPS {
            let op: u8 = vany();
            assume(op < 3);
            let x: u8 = vany();
            if op == 0 {
                let r = q.push_back(E::mk(x));
                if m.n == 4 {
                    assert!(r.is_err(), "push beyond the fixed capacity was accepted");
                    refused = true;
                } else {
                    assert!(r.is_ok(), "push_back refused although not full");
                    m.push(x);
                    pushes += 1;
                    wrapped |= pushes > 4;
                }
                forget(r);
            } else if op == 1 {
                let g = q.pop_front();
                assert!(opt_eq(&g, m.pop_front()), "pop_front differs from the VecDeque model");
            } else {
                q.clear();
                m.n = 0;
            }
            assert!(q.len() == m.n && q.is_empty() == (m.n == 0) && q.is_full() == (m.n == 4), "len/is_empty/is_full differ");
            match q.front() {
                Some(f) => assert!(m.n > 0 && f.val() == m.v[0], "front differs"),
                None => assert!(m.n == 0, "front missing"),
            }
            match q.back() {
                Some(b) => assert!(m.n > 0 && b.val() == m.v[m.n - 1], "back differs"),
                None => assert!(m.n == 0, "back missing"),
            }
            step += 1;
        }
        zcover!(refused, "a push into the full queue was refused");
        zcover!(wrapped, "the ring wrapped around");
        // drain: the remaining FIFO content equals the model
        let mut i = 0;
        while i < 4 {
            let g = q.pop_front();
            assert!(opt_eq(&g, m.pop_front()), "drained element differs from the VecDeque model");
            i += 1;
        }
        assert!(q.is_empty());
    }
    if E::TRACKED {
        assert_balanced();
    }
}

macro_rules! c10_fixedq {
    ($name:ident, $tier:ident, $unwind:literal, $elem:ty, $steps:literal) => {
        zv_harness! {
            name: $name,
            prop: "C10",
            tier: $tier,
            unwind: $unwind,
            stubs: [alloc::fmt::format => crate::common::stubs::fmt_format],
            targets: "containers::specialized::FixedCircularQueue::<_,4>::{new, push_back, pop_front, clear, len, is_empty, is_full, front, back, drop}",
            bounds: "STEPS symbolic operations from {push_back(x), pop_front, clear}, symbolic u8 payloads; capacity 4 so pushes wrap and overflow; instance: elem, STEPS",
            oracle: "len/is_empty/is_full/front/back after every operation and the final drained sequence equal a VecDeque-like array model; the push that would exceed capacity 4 is Err and changes nothing; pop on empty = None; Tracked: no double drop, constructions == drops",
            body: { fixedq_ops::<$elem, $steps>() }
        }
    };
}
c10_fixedq!(c10_fixedq_cap4_u8_ops6, quick, 10, u8, 6);
c10_fixedq!(c10_fixedq_cap4_tracked_ops6, quick, 10, Tracked, 6);
c10_fixedq!(c10_fixedq_cap4_tracked_ops8, thorough, 10, Tracked, 8);

// ------------------------------------------------------------------------------------------
// AutoGrowCircularQueue
// ------------------------------------------------------------------------------------------
// op bits: 0 push_back, 1 pop_front, 2 push_bulk(B items), 3 pop_bulk(2), 4 reserve(k<=4), 5 clear, 6 clone

fn autoq_ops<E: Elem, const PRE: u32, const STEPS: usize, const MASK: u32, const B: usize>() {
    {
        let mut q: AutoGrowCircularQueue<E> = AutoGrowCircularQueue::new(); // capacity 4
        let mut m = Model::new();
        let mut grew = false;
        // concrete prefix (decimal digits of PRE, most significant first): abc = a pushes, b pops, c pushes,
        // payloads symbolic; e.g. 311 fills capacity 4 (3 slots), frees the head slot and wraps the tail
        let pre = [(PRE / 100) as usize, ((PRE / 10) % 10) as usize, (PRE % 10) as usize];
        let mut ph = 0;
        while ph < 3 {
            let mut k = 0;
            while k < pre[ph] {
                if ph == 1 {
                    let g = q.pop_front();
                    assert!(opt_eq(&g, m.pop_front()), "pop_front differs from the VecDeque model");
                } else {
                    let x: u8 = vany();
                    let r = q.push_back(E::mk(x));
                    assert!(r.is_ok(), "push_back failed");
                    forget(r);
                    m.push(x);
                }
                k += 1;
            }
            ph += 1;
        }
        let mut step = 0;
        while step < STEPS {
            let op: u8 = vany();
            assume(op < 7 && (MASK >> op) & 1 == 1);
            let x: u8 = vany();
            let cap0 = q.capacity();
            if MASK & 1 != 0 && op == 0 {
                assume(m.n < CAP);
                let r = q.push_back(E::mk(x));
                assert!(r.is_ok(), "push_back failed");
                forget(r);
                m.push(x);
            } else if MASK & 2 != 0 && op == 1 {
                let g = q.pop_front();
                assert!(opt_eq(&g, m.pop_front()), "pop_front differs from the VecDeque model");
            } else if MASK & 4 != 0 && op == 2 {
                assume(m.n + B <= CAP);
                let xs: [u8; B] = vany();
                let items: [E; B] = core::array::from_fn(|i| E::mk(xs[i]));
                let r = q.push_bulk(&items);
                assert!(matches!(&r, Ok(k) if *k == B), "push_bulk did not accept all items");
                forget(r);
                let mut i = 0;
                while i < B {
                    m.push(xs[i]);
                    i += 1;
                }
            } else if MASK & 8 != 0 && op == 3 {
                let mut out = [E::mk(0), E::mk(0)];
                let k = q.pop_bulk(&mut out);
                let want = if m.n < 2 { m.n } else { 2 };
                assert!(k == want, "pop_bulk count differs");
                let mut i = 0;
                while i < 2 {
                    if i < k {
                        let w = m.pop_front();
                        assert!(w == Some(out[i].val()), "pop_bulk element differs from the VecDeque model");
                    }
                    i += 1;
                }
            } else if MASK & 16 != 0 && op == 4 {
                let k = small(4);
                let r = q.reserve(k);
                assert!(r.is_ok(), "reserve failed");
                forget(r);
            } else if MASK & 32 != 0 && op == 5 {
                q.clear();
                m.n = 0;
            } else if MASK & 64 != 0 && op == 6 {
                let mut c = q.clone();
                assert!(c.len() == m.n, "clone has a different length");
                let mut mm = m;
                let mut i = 0;
                while i < CAP {
                    let g = c.pop_front();
                    assert!(opt_eq(&g, mm.pop_front()), "clone content differs from the VecDeque model");
                    i += 1;
                }
            }
            grew |= q.capacity() > cap0 && m.n > 0;
            assert!(q.len() == m.n && q.is_empty() == (m.n == 0), "len/is_empty differ");
            match q.front() {
                Some(f) => assert!(m.n > 0 && f.val() == m.v[0], "front differs"),
                None => assert!(m.n == 0, "front missing"),
            }
            match q.back() {
                Some(b) => assert!(m.n > 0 && b.val() == m.v[m.n - 1], "back differs"),
                None => assert!(m.n == 0, "back missing"),
            }
            step += 1;
        }
        zcover!(m.n >= 3, "three or more elements at the end");
        zcover!(grew || MASK & 21 == 0, "the buffer grew while holding elements");
        let mut i = 0;
        while i < CAP {
            let g = q.pop_front();
            assert!(opt_eq(&g, m.pop_front()), "drained element differs from the VecDeque model");
            i += 1;
        }
    }
    if E::TRACKED {
        assert_balanced();
    }
}

macro_rules! c10_autoq {
    ($name:ident, $tier:ident, $unwind:literal, $elem:ty, $pre:literal, $steps:literal, $mask:literal, $b:literal) => {
        zv_harness! {
            name: $name,
            prop: "C10",
            tier: $tier,
            unwind: $unwind,
            stubs: [alloc::fmt::format => crate::common::stubs::fmt_format],
            targets: "containers::specialized::AutoGrowCircularQueue::{new, push_back (+slow path, grow_to, copy_elements_to_new_buffer), pop_front, push_bulk, pop_bulk, reserve, clear, clone, len, front, back, drop}",
            bounds: "concrete prefix PRE=abc (a pushes, b pops, c pushes; symbolic payloads), then STEPS symbolic operations from the instance's op mask (bit0 push_back, 1 pop_front, 2 push_bulk(B items), 3 pop_bulk(2), 4 reserve(<=4), 5 clear, 6 clone), initial capacity 4, symbolic u8 payloads, length kept <= 8; instance: elem, PRE, STEPS, mask, B",
            oracle: "len/front/back after every operation, clone content, pop_bulk output and the final drained sequence equal a VecDeque-like array model (also across growth while wrapped); Tracked: no double drop, constructions == drops",
            body: { autoq_ops::<$elem, $pre, $steps, $mask, $b>() }
        }
    };
}
c10_autoq!(c10_autoq_u8_pre311_pushpop_ops2, quick, 10, u8, 311, 2, 0x03, 1);
c10_autoq!(c10_autoq_tracked_pre311_pushpop_clear_ops2, quick, 10, Tracked, 311, 2, 0x23, 1);
c10_autoq!(c10_autoq_u8_pre210_bulk2_ops2, quick, 10, u8, 210, 2, 0x0f, 2);
c10_autoq!(c10_autoq_u8_bulk4_clone_ops2, probe, 10, u8, 0, 2, 0x44, 4);
c10_autoq!(c10_autoq_u8_bulk3_clone_ops2, quick, 10, u8, 0, 2, 0x44, 3);
c10_autoq!(c10_autoq_tracked_bulk4_clear_ops2, quick, 10, Tracked, 0, 2, 0x24, 4);
c10_autoq!(c10_autoq_u8_pushpop_ops5, probe, 10, u8, 0, 5, 0x03, 1);
c10_autoq!(c10_autoq_u8_bulk3_ops3, probe, 10, u8, 0, 3, 0x0f, 3);
c10_autoq!(c10_autoq_tracked_pre311_all_ops3, probe, 10, Tracked, 311, 3, 0x7f, 2);

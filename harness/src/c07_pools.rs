//! C07 — live allocations from any pool never overlap and keep their contents (sequential histories).
use crate::common::*;
use std::ptr::NonNull;
use zipora::memory::bump::BumpAllocator;
use zipora::memory::lockfree_pool::{BackoffStrategy, LockFreeMemoryPool, LockFreePoolConfig};

fn lf_config(memory_size: usize) -> LockFreePoolConfig {
    LockFreePoolConfig {
        memory_size,
        enable_stats: false,
        max_cas_retries: 2,
        backoff_strategy: BackoffStrategy::None,
        enable_cache_alignment: false,
        cache_config: None,
        enable_numa_awareness: false,
        enable_huge_pages: false,
        huge_page_threshold: 2 * 1024 * 1024,
        enable_simd_optimization: false,
        zero_on_free: false,
    }
}

fn disjoint(p: NonNull<u8>, ps: usize, q: NonNull<u8>, qs: usize) -> bool {
    let (a, b) = (p.as_ptr() as usize, q.as_ptr() as usize);
    a + ps <= b || b + qs <= a
}

/// Touch the first and last byte of a block: CBMC's pointer checks fail if either lies outside
/// the object (arena) the pool carved it from.
unsafe fn stamp(p: NonNull<u8>, size: usize, v: u8) {
    *p.as_ptr().add(size - 1) = v ^ 0xFF;
    *p.as_ptr() = v;
}
unsafe fn stamped(p: NonNull<u8>, size: usize, v: u8) -> bool {
    *p.as_ptr() == v && (size == 1 || *p.as_ptr().add(size - 1) == v ^ 0xFF)
}

/// alloc(s1); free; alloc(s2); alloc(s3): the two live blocks are disjoint, in bounds, 8-aligned
/// and keep their bytes. Sizes symbolic in 1..=MAXS.
fn lockfree_recycle<const MAXS: usize>() {
    lockfree_recycle_in(1, MAXS, 1, MAXS, 1, MAXS)
}

/// Same history with each size confined to its own concrete interval (cheaper: the size-class
/// scan of each call stays inside one or two classes).
fn lockfree_recycle_in(l1: usize, h1: usize, l2: usize, h2: usize, l3: usize, h3: usize) {
    // arena just large enough for the three requests (a smaller byte array is much cheaper for CBMC)
    let arena = if h1 + h2 + h3 + 64 <= 512 { 512 } else { 4096 * 8 };
    let pool = match LockFreeMemoryPool::new(lf_config(arena)) {
        Ok(p) => p,
        Err(e) => { forget(e); return; }
    };
    let s1: usize = vany();
    let s2: usize = vany();
    let s3: usize = vany();
    assume(s1 >= l1 && s1 <= h1 && s2 >= l2 && s2 <= h2 && s3 >= l3 && s3 <= h3);
    let p1 = match pool.allocate(s1) { Ok(p) => p, Err(e) => { forget(e); panic!("arena refused a small request") } };
    unsafe { stamp(p1, s1, 0x11) };
    let r = pool.deallocate(p1, s1);
    assert!(r.is_ok(), "free of a block the pool issued was refused");
    forget(r);
    let p2 = match pool.allocate(s2) { Ok(p) => p, Err(e) => { forget(e); panic!("refused") } };
    unsafe { stamp(p2, s2, 0x22) };
    let p3 = match pool.allocate(s3) { Ok(p) => p, Err(e) => { forget(e); panic!("refused") } };
    unsafe { stamp(p3, s3, 0x33) };
    assert!(disjoint(p2, s2, p3, s3), "two live blocks overlap");
    assert!(unsafe { stamped(p2, s2, 0x22) }, "a live block lost its contents");
    assert!((p2.as_ptr() as usize) % 8 == 0 && (p3.as_ptr() as usize) % 8 == 0, "block not 8-aligned");
    zcover!(p2 == p1, "freed block was recycled");
    zcover!(p2 != p1, "opt: freed block was not recycled (cannot happen when both sizes fall into one class)");
    forget(pool);
}

macro_rules! c07_lockfree_recycle {
    ($name:ident, $tier:ident, $unwind:literal, $maxs:literal) => {
        zv_harness! {
            name: $name,
            prop: "C07",
            tier: $tier,
            unwind: $unwind,
            stubs: [alloc::fmt::format => crate::common::stubs::fmt_format],
            targets: "memory::lockfree_pool::LockFreeMemoryPool::{new, allocate, deallocate, allocate_from_fast_bin, deallocate_to_fast_bin, allocate_new_block, size_to_bin_index, align_size, offset_to_ptr, ptr_to_offset}",
            bounds: "arena of 512 bytes (MAXS <= 144) or 32 KiB, cache alignment/NUMA/stats off; history alloc(s1) free alloc(s2) alloc(s3) with symbolic sizes in 1..=MAXS (instance arg); unwind 66 covers the 64 fast bins built by new() and the 64-entry size-class scan",
            oracle: "live blocks pairwise disjoint, first and last byte of each inside the arena (CBMC pointer checks), contents of a live block unchanged by a later allocation, 8-byte alignment, free of an issued block succeeds",
            body: { lockfree_recycle::<$maxs>() }
        }
    };
}
c07_lockfree_recycle!(c07_lockfree_recycle_s64, thorough, 66, 64);
c07_lockfree_recycle!(c07_lockfree_recycle_s256, probe, 66, 256);

macro_rules! c07_lockfree_class {
    ($name:ident, $tier:ident, $unwind:literal, $l1:literal, $h1:literal, $l2:literal, $h2:literal, $l3:literal, $h3:literal) => {
        zv_harness! {
            name: $name,
            prop: "C07",
            tier: $tier,
            unwind: $unwind,
            stubs: [alloc::fmt::format => crate::common::stubs::fmt_format],
            targets: "memory::lockfree_pool::LockFreeMemoryPool::{new, allocate, deallocate, allocate_from_fast_bin, deallocate_to_fast_bin, allocate_new_block, size_to_bin_index, align_size, offset_to_ptr, ptr_to_offset}",
            bounds: "512-byte arena, cache alignment/NUMA/stats off; history alloc(s1) free alloc(s2) alloc(s3) with symbolic sizes s1 in [l1,h1], s2 in [l2,h2], s3 in [l3,h3] (instance args: the six bounds); unwind 66 covers the 64 fast bins built by new() and the 64-entry size-class scan",
            oracle: "live blocks pairwise disjoint, first and last byte of each inside the arena (CBMC pointer checks), contents of a live block unchanged by a later allocation, 8-byte alignment, free of an issued block succeeds",
            body: { lockfree_recycle_in($l1, $h1, $l2, $h2, $l3, $h3) }
        }
    };
}
// a freed block of one request size re-issued for another size of the same size class
c07_lockfree_class!(c07_lockfree_class144, thorough, 66, 129, 144, 129, 144, 1, 16);
c07_lockfree_class!(c07_lockfree_class32, thorough, 66, 25, 32, 25, 32, 1, 8);
c07_lockfree_class!(c07_lockfree_class_cross, thorough, 66, 1, 24, 9, 40, 1, 24);
c07_lockfree_recycle!(c07_lockfree_recycle_s8192, probe, 66, 8192);

zv_harness! {
    name: c07_lockfree_capacity,
    prop: "C07",
    tier: probe,
    unwind: 66,
    stubs: [alloc::fmt::format => crate::common::stubs::fmt_format],
    targets: "memory::lockfree_pool::LockFreeMemoryPool::{allocate, allocate_new_block, deallocate, ptr_to_offset}",
    bounds: "256-byte arena; two allocations of symbolic sizes 1..=256; then a free of a pointer the pool never issued (outside its arena)",
    oracle: "every allocation either fails with Err or is a block whose first and last byte lie inside the arena and that is disjoint from the other live block; a foreign pointer is refused with Err and the pool still serves a request afterwards",
    body: {
        let pool = match LockFreeMemoryPool::new(lf_config(256)) { Ok(p) => p, Err(e) => { forget(e); return; } };
        let s1: usize = vany();
        let s2: usize = vany();
        assume(s1 >= 1 && s1 <= 256 && s2 >= 1 && s2 <= 256);
        let a = pool.allocate(s1);
        let b = pool.allocate(s2);
        if let Ok(p) = &a { unsafe { stamp(*p, s1, 1) }; }
        if let Ok(q) = &b { unsafe { stamp(*q, s2, 2) }; }
        if let (Ok(p), Ok(q)) = (&a, &b) {
            assert!(disjoint(*p, s1, *q, s2), "two live blocks overlap");
            assert!(unsafe { stamped(*p, s1, 1) }, "a live block lost its contents");
        }
        zcover!(a.is_ok() && b.is_err(), "second request refused for lack of capacity");
        zcover!(a.is_ok() && b.is_ok(), "both served");
        let mut foreign = [0u8; 16];
        let fr = pool.deallocate(NonNull::new(foreign.as_mut_ptr()).unwrap(), 8);
        assert!(fr.is_err(), "a pointer the pool never issued was accepted by deallocate");
        forget(fr);
        forget(a);
        forget(b);
        forget(pool);
    }
}

/// Bump allocator: two requests with fully symbolic size and a power-of-two alignment.
fn bump_two<const CAP: usize>() {
    let b = match BumpAllocator::new(CAP) { Ok(b) => b, Err(e) => { forget(e); return; } };
    let s1: usize = vany();
    let s2: usize = vany();
    let sh1: u32 = vany();
    let sh2: u32 = vany();
    assume(sh1 <= 6 && sh2 <= 6);
    let (a1, a2) = (1usize << sh1, 1usize << sh2);
    let r1 = b.alloc_bytes(s1, a1);
    let r2 = b.alloc_bytes(s2, a2);
    if let Ok(p) = &r1 {
        assert!(s1 >= 1 && s1 <= CAP, "a request beyond capacity was served");
        unsafe { stamp(*p, s1, 1) };
    }
    if let Ok(q) = &r2 {
        assert!(s2 >= 1 && s2 <= CAP, "a request beyond capacity was served");
        unsafe { stamp(*q, s2, 2) };
    }
    if let (Ok(p), Ok(q)) = (&r1, &r2) {
        assert!(disjoint(*p, s1, *q, s2), "two live blocks overlap");
        assert!(unsafe { stamped(*p, s1, 1) }, "a live block lost its contents");
        assert!(s1 + s2 <= CAP);
    }
    zcover!(r1.is_ok() && r2.is_ok(), "both served");
    zcover!(r1.is_ok() && r2.is_err(), "second refused");
    forget(r1);
    forget(r2);
    forget(b);
}
macro_rules! c07_bump {
    ($name:ident, $tier:ident, $unwind:literal, $cap:literal) => {
        zv_harness! {
            name: $name,
            prop: "C07",
            tier: $tier,
            unwind: $unwind,
            stubs: [alloc::fmt::format => crate::common::stubs::fmt_format],
            targets: "memory::bump::BumpAllocator::{new, alloc_bytes}",
            bounds: "capacity CAP (instance arg); two alloc_bytes calls with sizes ranging over ALL usize values and alignment 2^0..2^6; the base address of the buffer is treated as aligned (CBMC address model), so only offset alignment is covered",
            oracle: "each call returns Err or a block of the requested size whose first and last byte lie inside the buffer; served blocks are disjoint and keep their bytes; a size of 0 or above capacity is never served; no arithmetic overflow",
            body: { bump_two::<$cap>() }
        }
    };
}
c07_bump!(c07_bump_cap64, quick, 3, 64);
c07_bump!(c07_bump_cap4096, thorough, 3, 4096);

// ---------------------------------------------------------------- MemoryPool (pool.rs)
use zipora::memory::pool::{MemoryPool, PoolConfig};

/// Fixed-size chunk pool: a = alloc; b = alloc; free(a or b, solver's choice); c = alloc; d = alloc.
fn mempool_hist<const CHUNK: usize>() {
    let pool = match MemoryPool::new(PoolConfig::new(CHUNK, 2, 8)) { Ok(p) => p, Err(e) => { forget(e); return; } };
    let a = match pool.allocate() { Ok(p) => p, Err(e) => { forget(e); return; } };
    let b = match pool.allocate() { Ok(p) => p, Err(e) => { forget(e); return; } };
    let (va, vb, vc, vd): (u8, u8, u8, u8) = (vany(), vany(), vany(), vany());
    unsafe { stamp(a, CHUNK, va); stamp(b, CHUNK, vb); }
    assert!(disjoint(a, CHUNK, b, CHUNK), "two live chunks overlap");
    let free_a: bool = vany();
    let (live, vlive, freed) = if free_a { (b, vb, a) } else { (a, va, b) };
    let r = pool.deallocate(freed);
    assert!(r.is_ok(), "free of an issued chunk refused");
    forget(r);
    let c = match pool.allocate() { Ok(p) => p, Err(e) => { forget(e); return; } };
    unsafe { stamp(c, CHUNK, vc) };
    let d = match pool.allocate() { Ok(p) => p, Err(e) => { forget(e); return; } };
    unsafe { stamp(d, CHUNK, vd) };
    assert!(disjoint(live, CHUNK, c, CHUNK) && disjoint(live, CHUNK, d, CHUNK) && disjoint(c, CHUNK, d, CHUNK), "two live chunks overlap");
    assert!(unsafe { stamped(live, CHUNK, vlive) && stamped(c, CHUNK, vc) }, "a live chunk lost its contents");
    assert!((c.as_ptr() as usize) % 8 == 0 && (d.as_ptr() as usize) % 8 == 0, "chunk not aligned as configured");
    zcover!(c == freed, "freed chunk was reused");
    zcover!(free_a, "first chunk freed");
    forget(pool);
}
macro_rules! c07_mempool {
    ($name:ident, $tier:ident, $unwind:literal, $chunk:literal) => {
        zv_harness! {
            name: $name,
            prop: "C07",
            tier: $tier,
            unwind: $unwind,
            stubs: [alloc::fmt::format => crate::common::stubs::fmt_format],
            targets: "memory::pool::MemoryPool::{new, allocate, deallocate, allocate_new_chunk}",
            bounds: "chunk size CHUNK (instance arg), max_chunks 2, alignment 8; history alloc alloc free(solver picks which) alloc alloc; symbolic byte stamps",
            oracle: "live chunks pairwise disjoint, first/last byte inside their allocation (CBMC pointer checks), contents kept across later alloc/free, configured alignment, free of an issued chunk succeeds",
            body: { mempool_hist::<$chunk>() }
        }
    };
}
c07_mempool!(c07_mempool_chunk16, quick, 6, 16);
c07_mempool!(c07_mempool_chunk64, thorough, 6, 64);

// ---------------------------------------------------------------- FixedCapacityMemoryPool
use zipora::memory::fixed_capacity_pool::{FixedCapacityMemoryPool, FixedCapacityPoolConfig};

fn fixedcap_hist() {
    fixedcap_hist_cfg(32)
}

fn fixedcap_hist_cfg(max_block: usize) {
    let cfg = FixedCapacityPoolConfig { max_block_size: max_block, total_blocks: 2, alignment: 8, enable_stats: false, eager_allocation: true, secure_clear: false };
    let pool = match FixedCapacityMemoryPool::new(cfg) { Ok(p) => p, Err(e) => { forget(e); return; } };
    let s1: usize = vany();
    let s2: usize = vany();
    let s3: usize = vany();
    assume(s1 >= 1 && s1 <= max_block && s2 >= 1 && s2 <= max_block && s3 >= 1 && s3 <= max_block + 8);
    let a = pool.allocate(s1);
    let b = pool.allocate(s2);
    if let (Ok(x), Ok(y)) = (&a, &b) {
        assert!(x.size() >= s1 && y.size() >= s2, "block smaller than requested");
        let (px, py) = (NonNull::new(x.as_ptr()).unwrap(), NonNull::new(y.as_ptr()).unwrap());
        unsafe { stamp(px, x.size(), 0x5A); stamp(py, y.size(), 0xA5); }
        assert!(disjoint(px, x.size(), py, y.size()), "two live blocks overlap");
        assert!(unsafe { stamped(px, x.size(), 0x5A) }, "a live block lost its contents");
        assert!((x.as_ptr() as usize) % 8 == 0 && (y.as_ptr() as usize) % 8 == 0, "block not aligned as configured");
    }
    let c = pool.allocate(s3);
    if s3 > max_block {
        assert!(c.is_err(), "a request above max_block_size was served");
    }
    if let (Ok(x), Ok(z)) = (&a, &c) {
        let (px, pz) = (NonNull::new(x.as_ptr()).unwrap(), NonNull::new(z.as_ptr()).unwrap());
        assert!(disjoint(px, x.size(), pz, z.size()), "two live blocks overlap");
    }
    zcover!(a.is_ok() && b.is_ok(), "two blocks served");
    zcover!(c.is_err(), "third request refused");
    forget(a);
    forget(b);
    forget(c);
    forget(pool);
}
zv_harness! {
    name: c07_fixedcap_hist,
    prop: "C07",
    tier: probe,
    unwind: 12,
    stubs: [alloc::fmt::format => crate::common::stubs::fmt_format],
    targets: "memory::fixed_capacity_pool::FixedCapacityMemoryPool::{new, allocate, generate_size_classes, find_size_class, allocate_from_free_list}, FixedCapacityAllocation::{as_ptr,size}",
    bounds: "max_block_size 32, total_blocks 2, alignment 8, eager allocation; three allocate calls with symbolic sizes 1..=32 (third up to 40)",
    oracle: "served blocks are at least the requested size, pairwise disjoint, inside the pool's memory (CBMC pointer checks on first/last byte), keep their contents, are aligned as configured; a request above max_block_size is refused with Err",
    body: { fixedcap_hist() }
}

zv_harness! {
    name: c07_fixedcap_hist_unaligned_max,
    prop: "C07",
    tier: probe,
    unwind: 12,
    stubs: [alloc::fmt::format => crate::common::stubs::fmt_format],
    targets: "memory::fixed_capacity_pool::FixedCapacityMemoryPool::{new, allocate, generate_size_classes, find_size_class, allocate_from_free_list}, FixedCapacityAllocation::{as_ptr,size}",
    bounds: "max_block_size 20 (NOT a multiple of the 8-byte alignment), total_blocks 2, eager allocation; three allocate calls with symbolic sizes 1..=20 (third up to 28)",
    oracle: "served blocks are at least the requested size, pairwise disjoint over their reported size(), inside the pool's memory (CBMC pointer checks on first/last byte), keep their contents, are aligned as configured; a request above max_block_size is refused",
    body: { fixedcap_hist_cfg(20) }
}

zv_harness! {
    name: c07_lockfree_huge_request,
    prop: "C07",
    tier: quick,
    unwind: 66,
    stubs: [alloc::fmt::format => crate::common::stubs::fmt_format],
    targets: "memory::lockfree_pool::LockFreeMemoryPool::{allocate, allocate_from_skip_list, allocate_new_block, align_size}",
    bounds: "256-byte arena; ONE allocate call whose size ranges over every usize value above the fast-bin threshold (8192), in particular sizes whose low 32 bits are small",
    oracle: "the request is refused with Err (nothing of that size fits a 256-byte arena); no arithmetic overflow",
    body: {
        let pool = match LockFreeMemoryPool::new(lf_config(256)) { Ok(p) => p, Err(e) => { forget(e); return; } };
        let s: usize = vany();
        assume(s > 8192);
        let r = pool.allocate(s);
        assert!(r.is_err(), "a request far beyond the arena was served");
        zcover!(s > (1usize << 32) && (s & 0xFFFF_FFFF) <= 64, "size with small low 32 bits");
        forget(r);
        forget(pool);
    }
}

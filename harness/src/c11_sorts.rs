//! C11 — sorts, merges and set operations produce the mathematically defined result.
use crate::common::*;
use std::cmp::Ordering;
use zipora::algorithms::set_ops as so;

/// Stub for `std::alloc::realloc`: panics, i.e. the harness PROVES that no reallocation is
/// reached (a `Vec<u8>` first grows to capacity 8, results here have <= 8 elements). This removes
/// the (infeasible but expensive) regrow-and-copy paths from every `push` site; because reaching it
/// is an assertion failure, the cut cannot hide behaviour.
pub fn realloc_unreachable(_p: core::ptr::NonNull<u8>, _l: std::alloc::Layout, _n: usize) -> *mut u8 {
    panic!("realloc reached: the no-reallocation cut of this harness does not hold")
}

// ------------------------------------------------------------------------------------------
// helpers (definition-level oracles over fixed arrays; no zipora code)
// ------------------------------------------------------------------------------------------

/// Fixed-capacity expected sequence.
#[derive(Clone, Copy)]
struct Exp {
    v: [u8; 8],
    n: usize,
}
impl Exp {
    fn new() -> Self {
        Exp { v: [0; 8], n: 0 }
    }
    /// occurrences of x among the first n (<= max, max concrete) elements
    fn count(&self, max: usize, x: u8) -> usize {
        let mut c = 0;
        let mut i = 0;
        while i < max {
            if i < self.n && self.v[i] == x {
                c += 1;
            }
            i += 1;
        }
        c
    }
    fn push(&mut self, x: u8) {
        self.v[self.n] = x;
        self.n += 1;
    }
}

fn count(s: &[u8], x: u8) -> usize {
    let mut c = 0;
    let mut i = 0;
    while i < s.len() {
        if s[i] == x {
            c += 1;
        }
        i += 1;
    }
    c
}

/// Sorted (non-decreasing) symbolic array of concrete length N.
fn sym_sorted<const N: usize>() -> [u8; N] {
    let a: [u8; N] = vany();
    let mut i = 1;
    while i < N {
        assume(a[i - 1] <= a[i]);
        i += 1;
    }
    a
}

/// Copy a result vector into a fixed array once (reads through the Vec's heap pointer are the
/// expensive part of the oracle for CBMC); the vector itself is forgotten.
fn take(r: Vec<u8>) -> Exp {
    let mut e = Exp::new();
    assert!(r.len() <= 8, "result longer than both inputs together");
    let mut i = 0;
    while i < r.len() {
        e.push(r[i]);
        i += 1;
    }
    forget(r);
    e
}

fn assert_eq_exp(r: &Exp, e: &Exp) {
    assert!(r.n == e.n, "set operation: result length differs from the definition");
    let mut i = 0;
    while i < e.n {
        assert!(r.v[i] == e.v[i], "set operation: result element differs from the definition");
        i += 1;
    }
}

fn cmp_u8(x: &u8, y: &u8) -> Ordering {
    x.cmp(y)
}

#[derive(Clone, Copy, PartialEq)]
enum Op {
    Inter,
    Inter1Small,
    InterFast,
    Inter2,
    Inter2Small,
    Inter2Fast,
    Union,
    Diff,
    SetInter,
    SetUnion,
    SetDiff,
}

/// Definition of every two-input operation, written as membership / counting loops.
fn define<const LA: usize, const LB: usize>(op: Op, a: &[u8; LA], b: &[u8; LB]) -> Exp {
    let mut e = Exp::new();
    match op {
        // elements of A whose value occurs in B (all duplicates of A kept)
        Op::Inter | Op::Inter1Small | Op::InterFast => {
            let mut i = 0;
            while i < LA {
                if count(b, a[i]) > 0 {
                    e.push(a[i]);
                }
                i += 1;
            }
        }
        // elements of B whose value occurs in A (all duplicates of B kept)
        Op::Inter2 | Op::Inter2Small | Op::Inter2Fast => {
            let mut i = 0;
            while i < LB {
                if count(a, b[i]) > 0 {
                    e.push(b[i]);
                }
                i += 1;
            }
        }
        // std::set_difference: value v appears max(cA(v) - cB(v), 0) times
        Op::Diff => {
            let mut i = 0;
            while i < LA {
                let k = count(&a[..i], a[i]);
                if k >= count(b, a[i]) {
                    e.push(a[i]);
                }
                i += 1;
            }
        }
        // distinct values present in both
        Op::SetInter => {
            let mut i = 0;
            while i < LA {
                if (i == 0 || a[i - 1] != a[i]) && count(b, a[i]) > 0 {
                    e.push(a[i]);
                }
                i += 1;
            }
        }
        // distinct values v with cA(v) > cB(v) (documented: unique(multiset_difference))
        Op::SetDiff => {
            let mut i = 0;
            while i < LA {
                if (i == 0 || a[i - 1] != a[i]) && count(a, a[i]) > count(b, a[i]) {
                    e.push(a[i]);
                }
                i += 1;
            }
        }
        Op::Union | Op::SetUnion => unreachable!(),
    }
    e
}

fn run_op<const LA: usize, const LB: usize>(op: Op, a: &[u8; LA], b: &[u8; LB], t: usize) -> Vec<u8> {
    match op {
        Op::Inter => so::multiset_intersection(a, b, cmp_u8),
        Op::Inter1Small => so::multiset_1small_intersection(a, b, cmp_u8),
        Op::InterFast => so::multiset_fast_intersection(a, b, cmp_u8, t),
        Op::Inter2 => so::multiset_intersection2(a, b, cmp_u8),
        Op::Inter2Small => so::multiset_1small_intersection2(a, b, cmp_u8),
        Op::Inter2Fast => so::multiset_fast_intersection2(a, b, cmp_u8, t),
        Op::Union => so::multiset_union(a, b, cmp_u8),
        Op::Diff => so::multiset_difference(a, b, cmp_u8),
        Op::SetInter => so::set_intersection(a, b, cmp_u8),
        Op::SetUnion => so::set_union(a, b, cmp_u8),
        Op::SetDiff => so::set_difference(a, b, cmp_u8),
    }
}

/// Operations whose definition is a filter of one input (intersections, differences).
fn setop_filter<const LA: usize, const LB: usize>(op: Op) {
    let a = sym_sorted::<LA>();
    let b = sym_sorted::<LB>();
    let r = take(run_op(op, &a, &b, 0));
    let e = define::<LA, LB>(op, &a, &b);
    assert_eq_exp(&r, &e);
    zcover!(e.n == 0, "empty result");
    zcover!(e.n >= 2, "result with two or more elements");
    zcover!(a[0] == a[LA - 1] && a[0] == b[0], "all of A equal and present in B");
}

/// Adaptive variants: the threshold is symbolic so the solver picks the branch.
fn setop_fast<const LA: usize, const LB: usize>(op: Op) {
    let a = sym_sorted::<LA>();
    let b = sym_sorted::<LB>();
    let t: usize = vany();
    assume(t <= 64);
    let r = take(run_op(op, &a, &b, t));
    let e = define::<LA, LB>(op, &a, &b);
    assert_eq_exp(&r, &e);
    zcover!(LA * t < LB && e.n >= 1, "opt: binary-search variant selected");
    zcover!(LA * t >= LB && e.n >= 1, "linear variant selected");
}

/// multiset_union: sorted merge keeping every duplicate = sorted + multiset equality with A ++ B.
fn setop_union<const LA: usize, const LB: usize>() {
    let a = sym_sorted::<LA>();
    let b = sym_sorted::<LB>();
    let r = take(run_op(Op::Union, &a, &b, 0));
    assert!(r.n == LA + LB, "multiset_union: length is not |A|+|B|");
    let mut i = 0;
    while i < LA + LB {
        if i > 0 {
            assert!(r.v[i - 1] <= r.v[i], "multiset_union: result not sorted");
        }
        assert!(r.count(LA + LB, r.v[i]) == count(&a, r.v[i]) + count(&b, r.v[i]), "multiset_union: multiplicity differs");
        i += 1;
    }
    zcover!(r.v[0] == r.v[LA + LB - 1], "all elements equal");
    zcover!(a[LA - 1] < b[0], "A entirely below B");
    zcover!(b[LB - 1] < a[0], "B entirely below A");
}

/// set_union: strictly increasing and exactly the values of A and B.
fn setop_setunion<const LA: usize, const LB: usize>() {
    let a = sym_sorted::<LA>();
    let b = sym_sorted::<LB>();
    let r = take(run_op(Op::SetUnion, &a, &b, 0));
    assert!(r.n <= LA + LB, "set_union: too long");
    let mut i = 0;
    while i < r.n {
        if i > 0 {
            assert!(r.v[i - 1] < r.v[i], "set_union: result not strictly increasing");
        }
        assert!(count(&a, r.v[i]) + count(&b, r.v[i]) > 0, "set_union: foreign element");
        i += 1;
    }
    let mut i = 0;
    while i < LA {
        assert!(r.count(LA + LB, a[i]) == 1, "set_union: element of A missing");
        i += 1;
    }
    let mut i = 0;
    while i < LB {
        assert!(r.count(LA + LB, b[i]) == 1, "set_union: element of B missing");
        i += 1;
    }
    zcover!(r.n == 1, "everything collapses to one value");
    zcover!(r.n == LA + LB, "all values distinct");
}

macro_rules! c11_setop {
    ($name:ident, $tier:ident, $unwind:literal, $chk:ident, $la:literal, $lb:literal $(, $op:ident)?) => {
        zv_harness! {
            name: $name,
            prop: "C11",
            tier: $tier,
            unwind: $unwind,
            stubs: [alloc::fmt::format => crate::common::stubs::fmt_format, alloc::alloc::realloc_nonnull => crate::c11_sorts::realloc_unreachable],
            targets: "algorithms::set_ops (function named by the instance: Inter=multiset_intersection, Inter1Small=multiset_1small_intersection, InterFast=multiset_fast_intersection, Inter2/Inter2Small/Inter2Fast=the ...2 variants, Union=multiset_union, Diff=multiset_difference, SetInter/SetUnion/SetDiff=set_intersection/set_union/set_difference; + equal_range, lower_bound, upper_bound, set_unique_default)",
            bounds: "two sorted symbolic u8 arrays of the concrete lengths given by the instance, every byte value; comparator = Ord::cmp; adaptive threshold symbolic in 0..=64 (both branches covered)",
            oracle: "result equals the definition written as membership/counting loops: Inter = [a in A | a in B], Inter2 = [b in B | b in A], Union = sorted and multiplicity cA+cB, Diff = max(cA-cB,0) copies, SetInter/SetUnion/SetDiff = distinct values of the former; 1small/fast variants are checked against the same definition (hence agree)",
            body: { $chk::<$la, $lb>($(Op::$op)?) }
        }
    };
}

// unwind: linear two-pointer loops run <= LA+LB-1 times, binary-search variants <= max(LA,LB) times,
// union oracles count over LA+LB elements.
c11_setop!(c11_setops_inter_2x2, thorough, 4, setop_filter, 2, 2, Inter);
c11_setop!(c11_setops_inter1small_2x2, thorough, 3, setop_filter, 2, 2, Inter1Small);
c11_setop!(c11_setops_interfast_2x2, quick, 4, setop_fast, 2, 2, InterFast);
c11_setop!(c11_setops_inter2_2x2, thorough, 4, setop_filter, 2, 2, Inter2);
c11_setop!(c11_setops_inter2small_2x2, thorough, 3, setop_filter, 2, 2, Inter2Small);
c11_setop!(c11_setops_inter2fast_2x2, quick, 4, setop_fast, 2, 2, Inter2Fast);
c11_setop!(c11_setops_union_2x2, thorough, 5, setop_union, 2, 2);
c11_setop!(c11_setops_diff_2x2, quick, 4, setop_filter, 2, 2, Diff);
c11_setop!(c11_setops_setinter_2x2, quick, 4, setop_filter, 2, 2, SetInter);
c11_setop!(c11_setops_setunion_2x2, thorough, 5, setop_setunion, 2, 2);
c11_setop!(c11_setops_setdiff_2x2, quick, 4, setop_filter, 2, 2, SetDiff);
c11_setop!(c11_setops_inter_3x3, quick, 6, setop_filter, 3, 3, Inter);
c11_setop!(c11_setops_inter1small_3x3, quick, 4, setop_filter, 3, 3, Inter1Small);
c11_setop!(c11_setops_interfast_3x3, probe, 6, setop_fast, 3, 3, InterFast);
c11_setop!(c11_setops_interfast_3x1, probe, 6, setop_fast, 3, 1, InterFast);
c11_setop!(c11_setops_interfast_4x1, probe, 7, setop_fast, 4, 1, InterFast);
c11_setop!(c11_setops_inter2fast_3x1, thorough, 6, setop_fast, 3, 1, Inter2Fast);
c11_setop!(c11_setops_interfast_1x3, probe, 6, setop_fast, 1, 3, InterFast);
c11_setop!(c11_setops_inter2_3x3, quick, 6, setop_filter, 3, 3, Inter2);
c11_setop!(c11_setops_inter2small_3x3, quick, 4, setop_filter, 3, 3, Inter2Small);
c11_setop!(c11_setops_inter2fast_3x3, thorough, 6, setop_fast, 3, 3, Inter2Fast);
c11_setop!(c11_setops_union_3x3, quick, 7, setop_union, 3, 3);
c11_setop!(c11_setops_diff_3x3, thorough, 6, setop_filter, 3, 3, Diff);
c11_setop!(c11_setops_setinter_3x3, thorough, 6, setop_filter, 3, 3, SetInter);
c11_setop!(c11_setops_setunion_3x3, quick, 7, setop_setunion, 3, 3);
c11_setop!(c11_setops_setdiff_3x3, probe, 6, setop_filter, 3, 3, SetDiff);

// ------------------------------------------------------------------------------------------
// set_unique / set_unique_default
// ------------------------------------------------------------------------------------------

fn unique_check<const N: usize>(default_eq: bool) {
    let orig = sym_sorted::<N>();
    let mut d = orig;
    let n = if default_eq { so::set_unique_default(&mut d) } else { so::set_unique(&mut d, |x, y| x == y) };
    // definition: first occurrences, in order
    let mut e = Exp::new();
    let mut i = 0;
    while i < N {
        if i == 0 || orig[i - 1] != orig[i] {
            e.push(orig[i]);
        }
        i += 1;
    }
    assert!(n == e.n, "set_unique: returned length is not the number of distinct values");
    let mut i = 0;
    while i < N {
        if i < n {
            assert!(d[i] == e.v[i], "set_unique: prefix is not the distinct values in order");
        }
        i += 1;
    }
    zcover!(n == 1, "all equal");
    zcover!(n == N, "all distinct");
    zcover!(N >= 3 && n == 2 && orig[0] == orig[1], "duplicate run first, then a new value (swap path)");
}

macro_rules! c11_unique {
    ($name:ident, $tier:ident, $unwind:literal, $n:literal, $default:literal) => {
        zv_harness! {
            name: $name,
            prop: "C11",
            tier: $tier,
            unwind: $unwind,
            stubs: [alloc::fmt::format => crate::common::stubs::fmt_format],
            targets: "algorithms::set_ops::set_unique (instance flag false) / set_unique_default (true)",
            bounds: "one sorted symbolic u8 array of the concrete length given by the instance, every byte value",
            oracle: "returned length = number of distinct values; data[..len] = first occurrences in order (the tail is documented as unspecified and not inspected)",
            body: { unique_check::<$n>($default) }
        }
    };
}
c11_unique!(c11_setops_unique_n4, quick, 6, 4, false);
c11_unique!(c11_setops_unique_default_n3, quick, 5, 3, true);

// ------------------------------------------------------------------------------------------
// sorts
// ------------------------------------------------------------------------------------------
use zipora::algorithms::radix_sort::{
    AdvancedRadixSort, AdvancedRadixSortConfig, KeyValueRadixSort, RadixSort, RadixSortConfig, RadixString, SortingStrategy,
};

/// `after` is sorted (by Ord) and a permutation of `before` (pairwise counting).
fn assert_sorted_perm<T: Ord + Copy, const N: usize>(before: &[T; N], after: &[T; N]) {
    let mut i = 0;
    while i < N {
        if i > 0 {
            assert!(after[i - 1] <= after[i], "sort: output not sorted");
        }
        let mut cb = 0;
        let mut ca = 0;
        let mut j = 0;
        while j < N {
            if before[j] == before[i] {
                cb += 1;
            }
            if after[j] == before[i] {
                ca += 1;
            }
            j += 1;
        }
        assert!(cb == ca, "sort: output is not a permutation of the input");
        i += 1;
    }
}

/// Stubs for the rayon-based private parallel paths (`par_chunks_mut` pulls in `catch_unwind`, which
/// Kani cannot compile). They panic, i.e. each harness PROVES the parallel path is not taken with
/// the configuration it uses; the cut therefore cannot hide behaviour.
pub fn no_par_u32(_s: &RadixSort, _d: &mut [u32]) -> zipora::Result<()> {
    panic!("parallel radix path reached")
}
pub fn no_par_u64(_s: &RadixSort, _d: &mut [u64]) -> zipora::Result<()> {
    panic!("parallel radix path reached")
}
pub fn no_par_adv<T: zipora::algorithms::radix_sort::RadixSortable>(_s: &mut AdvancedRadixSort<T>, _d: &mut [T]) -> zipora::Result<()> {
    panic!("parallel radix path reached")
}

fn radix_cfg(bits: usize) -> RadixSortConfig {
    RadixSortConfig {
        use_parallel: false,
        parallel_threshold: 10_000,
        radix_bits: bits,
        use_counting_sort_threshold: 0, // force the LSD passes
        use_simd: false,
    }
}

fn radix_u32_check<const N: usize>(bits: usize) {
    let orig: [u32; N] = vany();
    let mut d = orig;
    let mut s = RadixSort::with_config(radix_cfg(bits));
    let r = s.sort_u32(&mut d);
    assert!(r.is_ok(), "sort_u32 failed");
    forget(r);
    assert_sorted_perm(&orig, &d);
    zcover!(orig[0] > orig[1] && (orig[0] ^ orig[1]) >= (1 << 24), "inversion decided by the top byte");
    zcover!(orig[0] > orig[1] && (orig[0] ^ orig[1]) < 256, "inversion decided by the low byte");
    forget(s);
}

fn radix_u64_check<const N: usize>(bits: usize) {
    let orig: [u64; N] = vany();
    let mut d = orig;
    let mut s = RadixSort::with_config(radix_cfg(bits));
    let r = s.sort_u64(&mut d);
    assert!(r.is_ok(), "sort_u64 failed");
    forget(r);
    assert_sorted_perm(&orig, &d);
    zcover!(orig[0] > orig[1] && (orig[0] ^ orig[1]) >= (1 << 56), "inversion decided by the top byte");
    zcover!(orig[0] > orig[1] && (orig[0] as u32) == (orig[1] as u32), "keys differing only in the high word");
    forget(s);
}

macro_rules! c11_radix_u32 {
    ($name:ident, $tier:ident, $unwind:literal, $n:literal, $bits:literal) => {
        zv_harness! {
            name: $name,
            prop: "C11",
            tier: $tier,
            unwind: $unwind,
            stubs: [alloc::fmt::format => crate::common::stubs::fmt_format,
                    std::time::Instant::now => crate::common::stubs::instant_now,
                    std::time::Instant::elapsed => crate::common::stubs::instant_elapsed,
                    std::rt::thread_cleanup => crate::common::stubs::noop,
                    zipora::algorithms::radix_sort::RadixSort::sort_u32_parallel => crate::c11_sorts::no_par_u32],
            targets: "RadixSort::sort_u32 -> sort_u32_sequential (LSD passes: count, prefix sums, distribute, copy back)",
            bounds: "N symbolic u32 (N, radix_bits from the instance), every value; use_counting_sort_threshold=0 forces the radix passes; use_parallel=false, use_simd=false; unwind = 2^radix_bits+1",
            oracle: "Ok; output sorted and a permutation of the input (pairwise counting)",
            body: { radix_u32_check::<$n>($bits) }
        }
    };
}
macro_rules! c11_radix_u64 {
    ($name:ident, $tier:ident, $unwind:literal, $n:literal, $bits:literal) => {
        zv_harness! {
            name: $name,
            prop: "C11",
            tier: $tier,
            unwind: $unwind,
            stubs: [alloc::fmt::format => crate::common::stubs::fmt_format,
                    std::time::Instant::now => crate::common::stubs::instant_now,
                    std::time::Instant::elapsed => crate::common::stubs::instant_elapsed,
                    std::rt::thread_cleanup => crate::common::stubs::noop,
                    zipora::algorithms::radix_sort::RadixSort::sort_u64_parallel => crate::c11_sorts::no_par_u64],
            targets: "RadixSort::sort_u64 -> sort_u64_sequential (LSD passes)",
            bounds: "N symbolic u64 (N, radix_bits from the instance), every value incl. keys differing only in the high word; use_parallel=false; unwind = max(2^radix_bits, 64/radix_bits)+1",
            oracle: "Ok; output sorted and a permutation of the input (pairwise counting)",
            body: { radix_u64_check::<$n>($bits) }
        }
    };
}
c11_radix_u32!(c11_radix_u32_n2_bits4, quick, 17, 2, 4);
c11_radix_u32!(c11_radix_u32_n2_bits8, probe, 257, 2, 8);
c11_radix_u32!(c11_radix_u32_n3_bits4, probe, 17, 3, 4);
c11_radix_u32!(c11_radix_u32_n3_bits8, probe, 257, 3, 8);
c11_radix_u64!(c11_radix_u64_n2_bits8, probe, 257, 2, 8);
c11_radix_u64!(c11_radix_u64_n3_bits4, probe, 17, 3, 4);

// ---- counting-sort scratch size (default configuration) -----------------------------------

/// 16 GiB: far beyond any O(N) scratch for <= 3 elements, and above the 16 GB address-space limit
/// of the native replay, so a counterexample aborts natively with "memory allocation failed".
const ALLOC_LIMIT: usize = 1 << 34;

/// Stub for `alloc::alloc::alloc_zeroed` (the path of `vec![0; n]`): asserts the requested size,
/// then serves small requests with the ordinary allocator (larger ones are not followed further).
pub fn alloc_zeroed_limited(layout: std::alloc::Layout) -> *mut u8 {
    assert!(layout.size() <= ALLOC_LIMIT, "sort requests more than 16 GiB of zeroed scratch memory");
    assume(layout.size() <= 64);
    unsafe {
        let p = std::alloc::alloc(layout);
        let mut i = 0;
        while i < layout.size() {
            *p.add(i) = 0;
            i += 1;
        }
        p
    }
}

zv_harness! {
    name: c11_radix_u32_default_alloc_n1,
    prop: "C11",
    tier: probe,
    unwind: 66,
    stubs: [alloc::fmt::format => crate::common::stubs::fmt_format,
            std::time::Instant::now => crate::common::stubs::instant_now,
            std::time::Instant::elapsed => crate::common::stubs::instant_elapsed,
            alloc::alloc::alloc_zeroed => crate::c11_sorts::alloc_zeroed_limited,
            std::rt::thread_cleanup => crate::common::stubs::noop,
            zipora::algorithms::radix_sort::RadixSort::sort_u32_parallel => crate::c11_sorts::no_par_u32],
    targets: "RadixSort::new().sort_u32 -> sort_u32_sequential -> counting_sort_u32 (default configuration: len <= 256 takes the counting sort)",
    bounds: "one symbolic u32 >= 2^31; default RadixSortConfig; alloc_zeroed replaced by a size-asserting stub (requests > 64 bytes are asserted but not followed further)",
    oracle: "no zeroed allocation larger than 16 GiB is requested while sorting one element; the element is unchanged",
    body: {
        let x: u32 = vany();
        assume(x >= 0x8000_0000); // the class for which max_val+1 counters exceed 16 GiB
        let mut d = [x];
        let mut s = RadixSort::new();
        let r = s.sort_u32(&mut d);
        assert!(r.is_ok(), "sort_u32 failed");
        forget(r);
        assert!(d[0] == x, "single element changed");
        zcover!(d[0] == x, "sorted without a huge allocation");
        forget(s);
    }
}

// ---- key-value sort -------------------------------------------------------------------------

fn kv_check<const N: usize>() {
    let orig: [(u8, u8); N] = core::array::from_fn(|_| (vany::<u8>(), vany::<u8>()));
    let mut d = orig;
    let s: KeyValueRadixSort<u8, u8> = KeyValueRadixSort::new();
    let r = s.sort_by_key(&mut d);
    assert!(r.is_ok(), "sort_by_key failed");
    forget(r);
    let mut i = 0;
    while i < N {
        if i > 0 {
            assert!(d[i - 1].0 <= d[i].0, "key-value sort: keys not sorted");
        }
        // every input pair occurs in the output as often as in the input (keys keep their values)
        let mut cb = 0;
        let mut ca = 0;
        let mut j = 0;
        while j < N {
            if orig[j] == orig[i] {
                cb += 1;
            }
            if d[j] == orig[i] {
                ca += 1;
            }
            j += 1;
        }
        assert!(cb == ca, "key-value sort: output pairs are not a permutation of the input pairs");
        i += 1;
    }
    zcover!(orig[0].0 > orig[1].0, "keys out of order on input");
    forget(s);
}

macro_rules! c11_kv {
    ($name:ident, $tier:ident, $unwind:literal, $n:literal) => {
        zv_harness! {
            name: $name,
            prop: "C11",
            tier: $tier,
            unwind: $unwind,
            stubs: [alloc::fmt::format => crate::common::stubs::fmt_format,
                    std::time::Instant::now => crate::common::stubs::instant_now,
                    std::time::Instant::elapsed => crate::common::stubs::instant_elapsed,
                    std::rt::thread_cleanup => crate::common::stubs::noop,
                    zipora::algorithms::radix_sort::RadixSort::sort_u64_parallel => crate::c11_sorts::no_par_u64],
            targets: "KeyValueRadixSort::<u8,u8>::new().sort_by_key (-> RadixSort::sort_u64, default config radix_bits=8)",
            bounds: "N (instance) symbolic (u8 key, u8 value) pairs, every value, duplicate keys included; unwind 257 = 256 counters + 1",
            oracle: "Ok; keys non-decreasing; multiset of (key,value) pairs unchanged (each key keeps its value)",
            body: { kv_check::<$n>() }
        }
    };
}
c11_kv!(c11_kv_radix_n2, probe, 257, 2);
c11_kv!(c11_kv_radix_n3, probe, 257, 3);

// ---- AdvancedRadixSort ----------------------------------------------------------------------

fn adv_cfg(strategy: Option<SortingStrategy>, bits: usize, ins_thr: usize) -> AdvancedRadixSortConfig {
    AdvancedRadixSortConfig {
        use_secure_memory: false, // SecureMemoryPool is not the subject (and its TLS drop glue ICEs Kani)
        adaptive_strategy: true,
        force_strategy: strategy,
        use_parallel: false,
        radix_bits: bits,
        insertion_sort_threshold: ins_thr,
        use_simd: false,
        ..AdvancedRadixSortConfig::default()
    }
}

#[derive(Clone, Copy)]
enum Strat {
    Default,
    Insertion,
    Tim,
    Lsd,
    Msd,
}

fn adv_u32_check<const N: usize>(st: Strat, bits: usize) {
    let orig: [u32; N] = vany();
    let mut d = orig;
    let cfg = match st {
        Strat::Default => adv_cfg(None, bits, 100),
        Strat::Insertion => adv_cfg(Some(SortingStrategy::Insertion), bits, 100),
        Strat::Tim => adv_cfg(Some(SortingStrategy::TimSort), bits, 100),
        Strat::Lsd => adv_cfg(Some(SortingStrategy::LsdRadix), bits, 100),
        Strat::Msd => adv_cfg(Some(SortingStrategy::MsdRadix), bits, 1),
    };
    let s = AdvancedRadixSort::<u32>::with_config(cfg);
    let mut s = match s {
        Ok(s) => s,
        Err(e) => {
            forget(e);
            panic!("with_config failed")
        }
    };
    let r = s.sort(&mut d);
    assert!(r.is_ok(), "AdvancedRadixSort::sort failed");
    forget(r);
    assert_sorted_perm(&orig, &d);
    zcover!(orig[0] > orig[1] && (orig[0] ^ orig[1]) >= (1 << 24), "inversion decided by the top byte");
    zcover!(orig[0] > orig[1] && (orig[0] ^ orig[1]) < 16, "inversion decided by the low digit");
    forget(s);
}

macro_rules! c11_adv_u32 {
    ($name:ident, $tier:ident, $unwind:literal, $n:literal, $st:ident, $bits:literal) => {
        zv_harness! {
            name: $name,
            prop: "C11",
            tier: $tier,
            unwind: $unwind,
            stubs: [alloc::fmt::format => crate::common::stubs::fmt_format,
                    std::time::Instant::now => crate::common::stubs::instant_now,
                    std::time::Instant::elapsed => crate::common::stubs::instant_elapsed,
                    std::arch::x86_64::__cpuid_count => crate::common::stubs::cpuid_zero,
                    std::rt::thread_cleanup => crate::common::stubs::noop,
                    zipora::algorithms::radix_sort::AdvancedRadixSort::lsd_radix_sort_parallel => crate::c11_sorts::no_par_adv],
            targets: "AdvancedRadixSort::<u32>::with_config + sort (strategy from the instance: Default=adaptive selection, Insertion, Tim, Lsd=lsd_radix_sort_sequential, Msd=msd_radix_sort with insertion threshold 1)",
            bounds: "N symbolic u32 (N, strategy, radix_bits from the instance), every value; use_secure_memory=false, use_parallel=false, use_simd=false, CPUID all-zero",
            oracle: "Ok; output sorted and a permutation of the input (pairwise counting)",
            body: { adv_u32_check::<$n>(Strat::$st, $bits) }
        }
    };
}
c11_adv_u32!(c11_adv_insertion_n3, quick, 5, 3, Insertion, 8);
c11_adv_u32!(c11_adv_default_n3, thorough, 5, 3, Default, 8);
c11_adv_u32!(c11_adv_tim_n3, thorough, 5, 3, Tim, 8);
c11_adv_u32!(c11_adv_lsd_n2_bits4, probe, 17, 2, Lsd, 4);
c11_adv_u32!(c11_adv_lsd_n3_bits4, probe, 17, 3, Lsd, 4);
c11_adv_u32!(c11_adv_msd_n2, probe, 258, 2, Msd, 8);

fn adv_str_check<const LA: usize, const LB: usize>(st: Strat) {
    let a: [u8; LA] = vany();
    let b: [u8; LB] = vany();
    let cfg = match st {
        Strat::Lsd => adv_cfg(Some(SortingStrategy::LsdRadix), 8, 100),
        _ => adv_cfg(None, 8, 100),
    };
    let mut d = [RadixString::new(&a), RadixString::new(&b)];
    let s = AdvancedRadixSort::<RadixString<'_>>::with_config(cfg);
    let mut s = match s {
        Ok(s) => s,
        Err(e) => {
            forget(e);
            panic!("with_config failed")
        }
    };
    let r = s.sort(&mut d);
    assert!(r.is_ok(), "AdvancedRadixSort::sort failed");
    forget(r);
    // lexicographic byte order of the two strings (RadixString's derived Ord), written out
    let x = d[0].as_slice();
    let y = d[1].as_slice();
    let mut i = 0;
    let mut decided = false;
    while i < LA + LB {
        if !decided && i < x.len() && i < y.len() && x[i] != y[i] {
            assert!(x[i] < y[i], "string sort: first differing byte out of order");
            decided = true;
        }
        i += 1;
    }
    if !decided {
        assert!(x.len() <= y.len(), "string sort: a proper prefix must come first");
    }
    assert!(x.len() + y.len() == LA + LB, "string sort: lengths changed");
    zcover!(LA > 0 && LB > 0 && a[0] > b[0], "inversion on the first byte");
    forget(s);
}

macro_rules! c11_adv_str {
    ($name:ident, $tier:ident, $unwind:literal, $la:literal, $lb:literal, $st:ident) => {
        zv_harness! {
            name: $name,
            prop: "C11",
            tier: $tier,
            unwind: $unwind,
            stubs: [alloc::fmt::format => crate::common::stubs::fmt_format,
                    std::time::Instant::now => crate::common::stubs::instant_now,
                    std::time::Instant::elapsed => crate::common::stubs::instant_elapsed,
                    std::arch::x86_64::__cpuid_count => crate::common::stubs::cpuid_zero,
                    std::rt::thread_cleanup => crate::common::stubs::noop,
                    zipora::algorithms::radix_sort::AdvancedRadixSort::lsd_radix_sort_parallel => crate::c11_sorts::no_par_adv],
            targets: "AdvancedRadixSort::<RadixString>::with_config + sort (Default = adaptive selection, which picks insertion_sort for n <= 100; Lsd = forced lsd_radix_sort_sequential), RadixString::extract_key",
            bounds: "two symbolic byte strings of the concrete lengths given by the instance, every byte value incl. 0; use_secure_memory=false, use_parallel=false, use_simd=false",
            oracle: "Ok; output pair is in lexicographic byte order (RadixString's Ord: first differing byte decides, a proper prefix comes first)",
            body: { adv_str_check::<$la, $lb>(Strat::$st) }
        }
    };
}
c11_adv_str!(c11_adv_str_default_2x1, probe, 10, 2, 1, Default);
c11_adv_str!(c11_adv_str_default_2x2, probe, 10, 2, 2, Default);

// ------------------------------------------------------------------------------------------
// merges
// ------------------------------------------------------------------------------------------
use zipora::algorithms::multiway_merge::{MergeOperations, MultiWayMerge, MultiWayMergeConfig, VectorSource};
use zipora::algorithms::tournament_tree::{EnhancedLoserTree, LoserTreeConfig};

/// `r` (first `n` entries) is sorted and has, for every value, the multiplicity of `all`.
fn assert_sorted_union<const M: usize>(r: &Exp, all: &[u8; M]) {
    assert!(r.n == M, "merge: output length is not the total input length");
    let mut i = 0;
    while i < M {
        if i > 0 {
            assert!(r.v[i - 1] <= r.v[i], "merge: output not sorted");
        }
        assert!(r.count(M, all[i]) == count(all, all[i]), "merge: multiplicity differs (duplicate lost or invented)");
        i += 1;
    }
}

fn vec_of<const N: usize>(a: &[u8; N]) -> Vec<u8> {
    let mut v = Vec::with_capacity(N.max(1));
    let mut i = 0;
    while i < N {
        v.push(a[i]);
        i += 1;
    }
    v
}

fn concat<const LA: usize, const LB: usize, const M: usize>(a: &[u8; LA], b: &[u8; LB]) -> [u8; M] {
    let mut all = [0u8; M];
    let mut i = 0;
    while i < LA {
        all[i] = a[i];
        i += 1;
    }
    let mut i = 0;
    while i < LB {
        all[LA + i] = b[i];
        i += 1;
    }
    all
}

fn merge_two_check<const LA: usize, const LB: usize, const M: usize>() {
    let a = sym_sorted::<LA>();
    let b = sym_sorted::<LB>();
    let r = take(MergeOperations::merge_two(vec_of(&a), vec_of(&b)));
    assert_sorted_union::<M>(&r, &concat::<LA, LB, M>(&a, &b));
    zcover!(a[0] == b[0], "equal heads");
    zcover!(a[LA - 1] < b[0], "left entirely below right");
    zcover!(b[LB - 1] < a[0], "right entirely below left");
}

fn merge_in_place_check<const LA: usize, const LB: usize, const M: usize>() {
    let a = sym_sorted::<LA>();
    let b = sym_sorted::<LB>();
    let all = concat::<LA, LB, M>(&a, &b);
    let mut d = all;
    MergeOperations::merge_in_place(&mut d, LA);
    let mut r = Exp::new();
    let mut i = 0;
    while i < M {
        r.push(d[i]);
        i += 1;
    }
    assert_sorted_union::<M>(&r, &all);
    zcover!(a[0] == b[0], "equal heads");
    zcover!(b[LB - 1] < a[0], "right entirely below left");
}

macro_rules! c11_merge2 {
    ($name:ident, $tier:ident, $unwind:literal, $f:ident, $la:literal, $lb:literal, $m:literal) => {
        zv_harness! {
            name: $name,
            prop: "C11",
            tier: $tier,
            unwind: $unwind,
            stubs: [alloc::fmt::format => crate::common::stubs::fmt_format, alloc::alloc::realloc_nonnull => crate::c11_sorts::realloc_unreachable],
            targets: "multiway_merge::MergeOperations::merge_two (merge_two_check) / merge_in_place (merge_in_place_check)",
            bounds: "two sorted symbolic u8 runs of the concrete lengths given by the instance, every byte value; no reallocation reached (asserted by the realloc stub)",
            oracle: "output sorted, length = total length, every value with the multiplicity of both runs together (duplicates kept)",
            body: { $f::<$la, $lb, $m>() }
        }
    };
}
c11_merge2!(c11_merge_two_2x2, quick, 6, merge_two_check, 2, 2, 4);
c11_merge2!(c11_merge_two_3x3, thorough, 8, merge_two_check, 3, 3, 6);
c11_merge2!(c11_merge_in_place_2x2, quick, 6, merge_in_place_check, 2, 2, 4);
c11_merge2!(c11_merge_in_place_3x2, thorough, 7, merge_in_place_check, 3, 2, 5);

fn lt_cfg() -> LoserTreeConfig {
    LoserTreeConfig {
        initial_capacity: 4,
        use_secure_memory: false, // SecureMemoryPool is not the subject
        stable_sort: true,
        cache_optimized: false, // avoids the _mm_prefetch intrinsic
        use_simd: false,
        prefetch_distance: 0,
        alignment: 64,
    }
}

/// k ways of L elements each (k*L == M), merged by the loser tree.
fn losertree_check<const K: usize, const L: usize, const M: usize>() {
    let mut all = [0u8; M];
    let mut tree: EnhancedLoserTree<u8> = EnhancedLoserTree::new(lt_cfg());
    let mut w = 0;
    while w < K {
        let run = sym_sorted::<L>();
        let mut i = 0;
        while i < L {
            all[w * L + i] = run[i];
            i += 1;
        }
        let r = tree.add_way(vec_of(&run).into_iter());
        assert!(r.is_ok(), "add_way failed");
        forget(r);
        w += 1;
    }
    let r = tree.merge_to_vec();
    let out = match r {
        Ok(v) => take(v),
        Err(e) => {
            forget(e);
            panic!("merge_to_vec failed on non-empty ways")
        }
    };
    assert_sorted_union::<M>(&out, &all);
    zcover!(K < 2 || all[0] > all[L % M], "second way starts below the first (k >= 2)");
    zcover!(all[0] == all[M - 1], "all elements equal");
    forget(tree);
}

macro_rules! c11_losertree {
    ($name:ident, $tier:ident, $unwind:literal, $k:literal, $l:literal, $m:literal) => {
        zv_harness! {
            name: $name,
            prop: "C11",
            tier: $tier,
            unwind: $unwind,
            stubs: [alloc::fmt::format => crate::common::stubs::fmt_format, alloc::alloc::realloc_nonnull => crate::c11_sorts::realloc_unreachable,
                    std::rt::thread_cleanup => crate::common::stubs::noop],
            targets: "tournament_tree::EnhancedLoserTree::{new, add_way, merge_to_vec -> merge_all, initialize, build_enhanced_tree, pop, update_winner, is_empty}",
            bounds: "K ways of L sorted symbolic u8 each (K, L, K*L from the instance), every byte value; use_secure_memory=false, cache_optimized=false, prefetch_distance=0; no reallocation reached (asserted)",
            oracle: "Ok; output sorted, length K*L, every value with its total multiplicity (duplicates kept)",
            body: { losertree_check::<$k, $l, $m>() }
        }
    };
}
c11_losertree!(c11_losertree_k1_l3, quick, 5, 1, 3, 3);
c11_losertree!(c11_losertree_k2_l2, quick, 6, 2, 2, 4);
c11_losertree!(c11_losertree_k3_l2, probe, 8, 3, 2, 6);

zv_harness! {
    name: c11_losertree_k0,
    prop: "C11",
    tier: quick,
    unwind: 3,
    stubs: [alloc::fmt::format => crate::common::stubs::fmt_format, std::rt::thread_cleanup => crate::common::stubs::noop],
    targets: "tournament_tree::EnhancedLoserTree::{new, merge_to_vec, pop, peek, is_empty} with zero ways",
    bounds: "no input way (concrete)",
    oracle: "no panic: merge_to_vec returns Err or an empty vector; pop = Ok(None); peek = None; is_empty",
    body: {
        let mut tree: EnhancedLoserTree<u8> = EnhancedLoserTree::new(lt_cfg());
        assert!(tree.is_empty() && tree.peek().is_none());
        let p = tree.pop();
        assert!(matches!(&p, Ok(None)), "pop on zero ways");
        forget(p);
        let r = tree.merge_to_vec();
        let ok = match &r { Ok(v) => v.is_empty(), Err(_) => true };
        assert!(ok, "merge of zero ways produced elements");
        zcover!(ok, "zero ways handled without panic");
        forget(r);
        forget(tree);
    }
}

/// MultiWayMerge::merge over K VectorSources of L elements (heap mode for 2..=8 sources).
fn multiway_check<const K: usize, const L: usize, const M: usize>(tournament: bool, max_ways: usize) {
    let mut all = [0u8; M];
    let mut sources: Vec<VectorSource<u8>> = Vec::with_capacity(K);
    let mut w = 0;
    while w < K {
        let run = sym_sorted::<L>();
        let mut i = 0;
        while i < L {
            all[w * L + i] = run[i];
            i += 1;
        }
        sources.push(VectorSource::new(vec_of(&run)));
        w += 1;
    }
    let mut m = MultiWayMerge::with_config(MultiWayMergeConfig {
        use_parallel: false,
        buffer_size: 64,
        max_merge_ways: max_ways,
        use_tournament_tree: tournament,
    });
    let r = m.merge(sources);
    let out = match r {
        Ok(v) => take(v),
        Err(e) => {
            forget(e);
            panic!("merge failed")
        }
    };
    assert_sorted_union::<M>(&out, &all);
    zcover!(K < 2 || all[0] > all[L % M], "second source starts below the first (k >= 2)");
    zcover!(all[0] == all[M - 1], "all elements equal");
    forget(m);
}

macro_rules! c11_multiway {
    ($name:ident, $tier:ident, $unwind:literal, $k:literal, $l:literal, $m:literal, $t:literal) => {
        zv_harness! {
            name: $name,
            prop: "C11",
            tier: $tier,
            unwind: $unwind,
            stubs: [alloc::fmt::format => crate::common::stubs::fmt_format,
                    std::time::Instant::now => crate::common::stubs::instant_now,
                    std::time::Instant::elapsed => crate::common::stubs::instant_elapsed,
                    alloc::alloc::realloc_nonnull => crate::c11_sorts::realloc_unreachable],
            targets: "multiway_merge::MultiWayMerge::merge (1 source: direct copy; 2..=8 sources: merge_heap over BinaryHeap<HeapEntry>; > 8 sources with use_tournament_tree (last instance flag): merge_tournament), VectorSource",
            bounds: "K sources of L sorted symbolic u8 each (K, L, K*L from the instance), every byte value; no reallocation reached (asserted)",
            oracle: "Ok; output sorted, length K*L, every value with its total multiplicity (duplicates kept)",
            body: { multiway_check::<$k, $l, $m>($t, 1024) }
        }
    };
}
c11_multiway!(c11_multiway_heap_k2_l2, quick, 6, 2, 2, 4, false);
c11_multiway!(c11_multiway_single_k1_l3, quick, 5, 1, 3, 3, false);
c11_multiway!(c11_multiway_heap_k3_l2, probe, 8, 3, 2, 6, false);
c11_multiway!(c11_multiway_tournament_k9_l1, probe, 11, 9, 1, 9, true);

macro_rules! c11_multiway_hier {
    ($name:ident, $tier:ident, $unwind:literal, $k:literal, $l:literal, $m:literal, $ways:literal) => {
        zv_harness! {
            name: $name,
            prop: "C11",
            tier: $tier,
            unwind: $unwind,
            stubs: [alloc::fmt::format => crate::common::stubs::fmt_format,
                    std::time::Instant::now => crate::common::stubs::instant_now,
                    std::time::Instant::elapsed => crate::common::stubs::instant_elapsed],
            targets: "multiway_merge::MultiWayMerge::merge with more sources than max_merge_ways (merge_hierarchical), VectorSource",
            bounds: "K sources of L sorted symbolic u8 each, max_merge_ways = last instance arg < K (so the number of groups is odd and >= 3 for the instances chosen)",
            oracle: "Ok; output sorted, length K*L, every value with its total multiplicity (no run dropped)",
            body: { multiway_check::<$k, $l, $m>(false, $ways) }
        }
    };
}
c11_multiway_hier!(c11_multiway_hier_k3_l1_w1, probe, 8, 3, 1, 3, 1);
c11_multiway_hier!(c11_multiway_hier_k5_l1_w2, probe, 10, 5, 1, 5, 2);

//! C20 — string views, orderings and iterators agree with byte-wise semantics
//! (FastStr, join, word / field splitting, sorted-vector iterator; the numeric comparators live in c20_numeric.rs).
use crate::common::*;
use std::cmp::Ordering;

/// Symbolic ASCII string of concrete length N over bytes < 0x80 (so it is valid UTF-8).
fn sym_ascii<const N: usize>() -> [u8; N] {
    let a: [u8; N] = vany();
    let mut i = 0;
    while i < N {
        assume(a[i] < 0x80);
        i += 1;
    }
    a
}

// ---------------------------------------------------------------------------------------------
// FastStr vs the underlying byte slice (src/string/fast_str.rs)
use zipora::string::FastStr;

/// definition: lexicographic order by unsigned byte, shorter prefix first
fn ref_cmp(a: &[u8], b: &[u8]) -> Ordering {
    let mut i = 0;
    while i < a.len() && i < b.len() {
        if a[i] < b[i] {
            return Ordering::Less;
        }
        if a[i] > b[i] {
            return Ordering::Greater;
        }
        i += 1;
    }
    if a.len() < b.len() {
        Ordering::Less
    } else if a.len() > b.len() {
        Ordering::Greater
    } else {
        Ordering::Equal
    }
}
/// definition: `b` occurs in `a` at offset `at`
fn ref_occurs(a: &[u8], b: &[u8], at: usize) -> bool {
    if at + b.len() > a.len() {
        return false;
    }
    let mut j = 0;
    while j < b.len() {
        if a[at + j] != b[j] {
            return false;
        }
        j += 1;
    }
    true
}
fn ref_find(a: &[u8], b: &[u8]) -> Option<usize> {
    let mut i = 0;
    while i <= a.len() {
        if ref_occurs(a, b, i) {
            return Some(i);
        }
        i += 1;
    }
    None
}

fn faststr_pair<const LA: usize, const LB: usize>() {
    let a: [u8; LA] = vany();
    let b: [u8; LB] = vany();
    let fa = FastStr::new(&a);
    let fb = FastStr::new(&b);
    assert!(fa.len() == LA && fa.is_empty() == (LA == 0));
    let ord = ref_cmp(&a, &b);
    let eq = ord == Ordering::Equal;
    assert!((fa == fb) == eq, "FastStr == disagrees with byte equality");
    assert!(fa.cmp(&fb) == ord, "FastStr::cmp is not unsigned lexicographic order");
    assert!(fa.compare(fb) == ord, "FastStr::compare is not unsigned lexicographic order");
    assert!(fa.partial_cmp(&fb) == Some(ord));
    assert!((fa < fb) == (ord == Ordering::Less));
    assert!(fa.starts_with(fb) == ref_occurs(&a, &b, 0), "starts_with");
    assert!(fa.ends_with(fb) == (LB <= LA && ref_occurs(&a, &b, LA - if LB <= LA { LB } else { 0 })), "ends_with");
    assert!(fa.find(fb) == ref_find(&a, &b), "find");
    let mut cp = 0;
    while cp < LA && cp < LB && a[cp] == b[cp] {
        cp += 1;
    }
    assert!(fa.common_prefix_len(fb) == cp, "common_prefix_len");
    if LB >= 1 {
        // single-byte search agrees with the first position of that byte
        let mut first = None;
        let mut i = LA;
        while i > 0 {
            i -= 1;
            if a[i] == b[0] {
                first = Some(i);
            }
        }
        assert!(fa.find_byte(b[0]) == first && fa.find_byte_optimized(b[0]) == first, "find_byte");
    }
    zcover!(LA == 0 || LB == 0 || (a[0] >= 0x80 && b[0] < 0x80 && ord == Ordering::Greater), "byte >= 0x80 orders above ASCII");
    zcover!(eq == (LA == LB), "equal contents when lengths agree");
}

macro_rules! c20_faststr_pair {
    ($name:ident, $tier:ident, $unwind:literal, $la:literal, $lb:literal) => {
        zv_harness! {
            name: $name,
            prop: "C20",
            tier: $tier,
            unwind: $unwind,
            stubs: [alloc::fmt::format => crate::common::stubs::fmt_format],
            targets: "FastStr::{new, len, ==, cmp, partial_cmp, compare, starts_with, ends_with, find, find_byte, find_byte_optimized, common_prefix_len}",
            bounds: "two fully symbolic byte strings (all 256 byte values) of the concrete lengths LA, LB given by the instance (0..6)",
            oracle: "each operation equals its definition-level loop over the byte arrays: unsigned lexicographic order, prefix / suffix / first occurrence, common prefix length",
            body: { faststr_pair::<$la, $lb>() }
        }
    };
}
c20_faststr_pair!(c20_faststr_pair_0x0, thorough, 6, 0, 0);
c20_faststr_pair!(c20_faststr_pair_2x1, quick, 6, 2, 1);
c20_faststr_pair!(c20_faststr_pair_2x2, quick, 6, 2, 2);
c20_faststr_pair!(c20_faststr_pair_3x2, quick, 6, 3, 2);
c20_faststr_pair!(c20_faststr_pair_1x3, thorough, 6, 1, 3);
c20_faststr_pair!(c20_faststr_pair_3x3, thorough, 6, 3, 3);
c20_faststr_pair!(c20_faststr_pair_3x0, thorough, 6, 3, 0);
c20_faststr_pair!(c20_faststr_pair_4x3, quick, 8, 4, 3);
c20_faststr_pair!(c20_faststr_pair_5x3, quick, 8, 5, 3);
c20_faststr_pair!(c20_faststr_pair_6x4, thorough, 9, 6, 4);

/// Long strings with a concrete common filler and symbolic bytes at the positions P0, P1 of both
/// strings (block boundaries of 16/32-byte vector paths): the order is decided inside a full block,
/// at its last byte, or in the tail behind it.
fn faststr_long<const LA: usize, const LB: usize, const P0: usize, const P1: usize>() {
    let mut a = [0u8; LA];
    let mut b = [0u8; LB];
    let mut i = 0;
    while i < LA {
        a[i] = (i as u8).wrapping_mul(7).wrapping_add(0x41);
        i += 1;
    }
    i = 0;
    while i < LB {
        b[i] = (i as u8).wrapping_mul(7).wrapping_add(0x41);
        i += 1;
    }
    if P0 < LA {
        a[P0] = vany();
    }
    if P1 < LA {
        a[P1] = vany();
    }
    if P0 < LB {
        b[P0] = vany();
    }
    if P1 < LB {
        b[P1] = vany();
    }
    let fa = FastStr::new(&a);
    let fb = FastStr::new(&b);
    let ord = ref_cmp(&a, &b);
    assert!((fa == fb) == (ord == Ordering::Equal), "FastStr == disagrees with byte equality");
    assert!(fa.cmp(&fb) == ord, "FastStr::cmp is not unsigned lexicographic order");
    assert!(fa.compare(fb) == ord, "FastStr::compare is not unsigned lexicographic order");
    assert!(fb.compare(fa) == ord.reverse(), "FastStr::compare is not antisymmetric");
    assert!(fa.partial_cmp(&fb) == Some(ord));
    assert!((fa < fb) == (ord == Ordering::Less) && (fa >= fb) == (ord != Ordering::Less));
    assert!(fa.starts_with(fb) == ref_occurs(&a, &b, 0), "starts_with");
    let mut cp = 0;
    while cp < LA && cp < LB && a[cp] == b[cp] {
        cp += 1;
    }
    assert!(fa.common_prefix_len(fb) == cp, "common_prefix_len");
    zcover!(P0 < LA && P0 < LB && a[P0] >= 0x80 && b[P0] < 0x80 && ord == Ordering::Greater, "byte >= 0x80 orders above ASCII inside the block");
    zcover!(ord == Ordering::Equal || LA != LB, "equal contents");
}
macro_rules! c20_faststr_long {
    ($name:ident, $tier:ident, $unwind:literal, $la:literal, $lb:literal, $p0:literal, $p1:literal) => {
        zv_harness! {
            name: $name,
            prop: "C20",
            tier: $tier,
            unwind: $unwind,
            stubs: [alloc::fmt::format => crate::common::stubs::fmt_format],
            targets: "FastStr::{new, ==, cmp, partial_cmp, <, >=, compare, starts_with, common_prefix_len} on strings of 16..33 bytes (whole 16/32-byte blocks plus tails)",
            bounds: "strings of the concrete lengths LA, LB of the instance sharing the concrete filler byte (7*i+0x41) mod 256 at index i, except the positions P0 and P1 (args: LA, LB, P0, P1), which hold an arbitrary byte in each string independently",
            oracle: "definition-level loops over the byte arrays: unsigned lexicographic order (also antisymmetry of compare), prefix test, common prefix length",
            body: { faststr_long::<$la, $lb, $p0, $p1>() }
        }
    };
}
c20_faststr_long!(c20_faststr_long_16x16_p0_p15, quick, 36, 16, 16, 0, 15);
c20_faststr_long!(c20_faststr_long_17x18_p15_p16, quick, 36, 17, 18, 15, 16);
c20_faststr_long!(c20_faststr_long_33x32_p16_p31, quick, 36, 33, 32, 16, 31);
c20_faststr_long!(c20_faststr_long_32x33_p7_p32, thorough, 36, 32, 33, 7, 32);

fn faststr_hash<const L: usize>() {
    use std::hash::{Hash, Hasher};
    /// deterministic recording hasher (FastStrHash / FastStrHasher are not exported by zipora)
    struct Rec(u64);
    impl Hasher for Rec {
        fn finish(&self) -> u64 {
            self.0
        }
        fn write(&mut self, bytes: &[u8]) {
            let mut i = 0;
            while i < bytes.len() {
                self.0 = self.0.wrapping_mul(31).wrapping_add(bytes[i] as u64);
                i += 1;
            }
        }
        fn write_u64(&mut self, v: u64) {
            self.0 = self.0.wrapping_mul(31).wrapping_add(v);
        }
    }
    fn std_hash(s: &FastStr) -> u64 {
        let mut h = Rec(7);
        s.hash(&mut h);
        h.finish()
    }
    let a: [u8; L] = vany();
    // the same bytes at two differently aligned places
    let mut buf = [0u8; 12];
    let mut i = 0;
    while i < L {
        buf[1 + i] = a[i];
        buf[6 + i] = a[i];
        i += 1;
    }
    let fa = FastStr::new(&a);
    let f1 = FastStr::new(&buf[1..1 + L]);
    let f6 = FastStr::new(&buf[6..6 + L]);
    assert!(fa == f1 && f1 == f6);
    let h = fa.hash_fast();
    assert!(f1.hash_fast() == h && f6.hash_fast() == h, "hash_fast depends on the address of the bytes");
    assert!(std_hash(&fa) == std_hash(&f6) && std_hash(&fa) == std_hash(&f1), "Hash differs for equal FastStr");
    zcover!(L == 0 || a[0] >= 0x80, "high byte");
    zcover!(h != 0, "hash computed");
}
macro_rules! c20_faststr_hash {
    ($name:ident, $tier:ident, $unwind:literal, $l:literal) => {
        zv_harness! {
            name: $name,
            prop: "C20",
            tier: $tier,
            unwind: $unwind,
            stubs: [alloc::fmt::format => crate::common::stubs::fmt_format,
                    std::arch::x86_64::__cpuid_count => crate::common::stubs::cpuid_zero],
            targets: "FastStr::hash_fast (SSE2 tier selected: CPUID stubbed to report no AVX2/AVX-512), impl Hash for FastStr observed through a deterministic recording Hasher",
            bounds: "every byte string of the concrete length L given by the instance (0..3), also placed at offsets 1 and 6 of a buffer (three equal strings at three addresses)",
            oracle: "equal contents => equal hash_fast and equal Hash, independent of where the bytes live",
            body: { faststr_hash::<$l>() }
        }
    };
}
c20_faststr_hash!(c20_faststr_hash_l0, thorough, 6, 0);
c20_faststr_hash!(c20_faststr_hash_l1, quick, 6, 1);
c20_faststr_hash!(c20_faststr_hash_l2, probe, 6, 2);
c20_faststr_hash!(c20_faststr_hash_l3, probe, 6, 3);

zv_harness! {
    name: c20_faststr_slice_n3,
    prop: "C20",
    tier: quick,
    unwind: 6,
    stubs: [alloc::fmt::format => crate::common::stubs::fmt_format],
    targets: "FastStr::{substring, substring_from, prefix, suffix, get_byte, as_bytes}",
    bounds: "every 3-byte string; start in 0..=3 (documented slice precondition start <= len), len / index fully symbolic usize",
    oracle: "substring(start, len) == bytes[start..min(start+len, 3)] (saturating), substring_from / prefix / suffix clamp to the string, get_byte == slice.get",
    body: {
        let a: [u8; 3] = vany();
        let s = FastStr::new(&a);
        let start: usize = vany();
        let len: usize = vany();
        assume(start <= 3);
        let end = if len > 3 - start { 3 } else { start + len };
        let sub = s.substring(start, len);
        assert!(sub.len() == end - start, "substring length");
        let sb = sub.as_bytes();
        let mut i = 0;
        while i < 3 {
            if i < sb.len() {
                assert!(sb[i] == a[start + i], "substring content");
            }
            i += 1;
        }
        let any: usize = vany();
        let from = s.substring_from(any);
        assert!(from.len() == if any >= 3 { 0 } else { 3 - any });
        let pre = s.prefix(any);
        let k = if any >= 3 { 3 } else { any };
        assert!(pre.len() == k && (k == 0 || pre.as_bytes()[0] == a[0]));
        let suf = s.suffix(any);
        assert!(suf.len() == k && (k == 0 || suf.as_bytes()[k - 1] == a[2]) && (k == 0 || suf.as_bytes()[0] == a[3 - k]));
        assert!(s.get_byte(any) == if any < 3 { Some(a[any]) } else { None });
        zcover!(start == 3 && len == usize::MAX, "empty substring at the end with a saturating length");
        zcover!(start == 1 && len == 1, "inner substring");
    }
}

// ---------------------------------------------------------------------------------------------
// join (src/string/join.rs)
use zipora::string::{join, join_str, JoinBuilder};

fn join3<const LS: usize, const L0: usize, const L1: usize, const L2: usize>() {
    let sep: [u8; LS] = vany();
    let p0: [u8; L0] = vany();
    let p1: [u8; L1] = vany();
    let p2: [u8; L2] = vany();
    let parts: [&[u8]; 3] = [&p0, &p1, &p2];
    let out = join(&sep, &parts);
    assert!(out.len() == L0 + L1 + L2 + 2 * LS, "join length");
    // definition: p0 sep p1 sep p2
    let mut k = 0;
    let mut i = 0;
    while i < L0 {
        assert!(out[k] == p0[i]);
        k += 1;
        i += 1;
    }
    i = 0;
    while i < LS {
        assert!(out[k] == sep[i]);
        k += 1;
        i += 1;
    }
    i = 0;
    while i < L1 {
        assert!(out[k] == p1[i]);
        k += 1;
        i += 1;
    }
    i = 0;
    while i < LS {
        assert!(out[k] == sep[i]);
        k += 1;
        i += 1;
    }
    i = 0;
    while i < L2 {
        assert!(out[k] == p2[i]);
        k += 1;
        i += 1;
    }
    // one part: the part itself, no separator; no parts: empty
    let one = join(&sep, &parts[..1]);
    assert!(one.len() == L0 && (L0 == 0 || one[0] == p0[0]));
    let none = join(&sep, &parts[..0]);
    assert!(none.is_empty());
    let two = join(&sep, &parts[1..]);
    assert!(two.len() == L1 + LS + L2);
    zcover!(out.len() == 0 || out[out.len() - 1] == 0xff, "last byte free");
    forget(out);
    forget(one);
    forget(none);
    forget(two);
}
macro_rules! c20_join {
    ($name:ident, $tier:ident, $unwind:literal, $ls:literal, $l0:literal, $l1:literal, $l2:literal) => {
        zv_harness! {
            name: $name,
            prop: "C20",
            tier: $tier,
            unwind: $unwind,
            stubs: [alloc::fmt::format => crate::common::stubs::fmt_format],
            targets: "string::join::join (capacity precomputation, append with separators) for 0, 1, 2 and 3 parts",
            bounds: "symbolic separator and three symbolic parts of the concrete lengths LS, L0, L1, L2 given by the instance (each 0..2)",
            oracle: "join(sep, [p0,p1,p2]) == p0 ++ sep ++ p1 ++ sep ++ p2 byte for byte; one part => the part; no part => empty",
            body: { join3::<$ls, $l0, $l1, $l2>() }
        }
    };
}
c20_join!(c20_join_s1_1_0_2, quick, 6, 1, 1, 0, 2);
c20_join!(c20_join_s0_0_0_0, thorough, 6, 0, 0, 0, 0);
c20_join!(c20_join_s2_2_2_2, thorough, 6, 2, 2, 2, 2);

zv_harness! {
    name: c20_join_str_builder,
    prop: "C20",
    tier: thorough,
    unwind: 8,
    stubs: [alloc::fmt::format => crate::common::stubs::fmt_format],
    targets: "string::join::join_str and JoinBuilder::{push, build} on three ASCII parts",
    bounds: "separator of 1 symbolic ASCII byte; parts of lengths 1, 0, 2 with symbolic ASCII bytes",
    oracle: "join_str(sep, parts) and JoinBuilder(sep).push(..).build() both equal p0 ++ sep ++ p1 ++ sep ++ p2",
    body: {
        let raw: [u8; 4] = sym_ascii::<4>();
        let sep = unsafe { core::str::from_utf8_unchecked(&raw[0..1]) };
        let p0 = unsafe { core::str::from_utf8_unchecked(&raw[1..2]) };
        let p1 = "";
        let p2 = unsafe { core::str::from_utf8_unchecked(&raw[2..4]) };
        let want = [raw[1], raw[0], raw[0], raw[2], raw[3]];
        let out = join_str(sep, &[p0, p1, p2]);
        let ob = out.as_bytes();
        assert!(ob.len() == 5);
        let mut i = 0;
        while i < 5 {
            assert!(ob[i] == want[i], "join_str content");
            i += 1;
        }
        let mut jb = JoinBuilder::new(sep);
        jb.push(p0).push(p1).push(p2);
        assert!(jb.len() == 3);
        let built = jb.build();
        let bb = built.as_bytes();
        assert!(bb.len() == 5);
        i = 0;
        while i < 5 {
            assert!(bb[i] == want[i], "JoinBuilder content");
            i += 1;
        }
        zcover!(raw[0] == b',', "comma separator");
        forget(out);
        forget(built);
        forget(jb);
    }
}

// ---------------------------------------------------------------------------------------------
// words (src/string/word_boundary.rs)
use zipora::string::{find_word_boundaries, is_word_boundary, is_word_char, word_at_position, word_count, words};

fn ref_word_char(c: u8) -> bool {
    (c >= b'a' && c <= b'z') || (c >= b'A' && c <= b'Z') || (c >= b'0' && c <= b'9') || c == b'_'
}

fn words_n<const N: usize>() {
    let t: [u8; N] = vany();
    // definition: a word is a maximal run of [A-Za-z0-9_]
    let mut starts = [0usize; N];
    let mut ends = [0usize; N];
    let mut cnt = 0;
    let mut i = 0;
    while i < N {
        if ref_word_char(t[i]) && (i == 0 || !ref_word_char(t[i - 1])) {
            starts[cnt] = i;
        }
        if ref_word_char(t[i]) && (i + 1 == N || !ref_word_char(t[i + 1])) {
            ends[cnt] = i + 1;
            cnt += 1;
        }
        i += 1;
    }
    assert!(word_count(&t) == cnt, "word_count");
    let mut it = words(&t);
    let mut k = 0;
    while k < N {
        let w = it.next();
        if k < cnt {
            match w {
                Some(s) => {
                    assert!(s.len() == ends[k] - starts[k], "word length");
                    assert!(s[0] == t[starts[k]] && s[s.len() - 1] == t[ends[k] - 1], "word content");
                }
                None => panic!("word iterator ended early"),
            }
        } else {
            assert!(w.is_none(), "word iterator yields an extra word");
        }
        k += 1;
    }
    // boundaries and word_at_position
    let p: usize = vany();
    assume(p <= N);
    let interior = p > 0 && p < N;
    let want_b = !interior || (ref_word_char(t[p - 1]) != ref_word_char(t[if p < N { p } else { 0 }]));
    assert!(is_word_boundary(&t, p) == want_b, "is_word_boundary");
    let wp = word_at_position(&t, p);
    if p < N && ref_word_char(t[p]) {
        match wp {
            Some((s, e)) => {
                assert!(s <= p && p < e && e <= N);
                assert!((s == 0 || !ref_word_char(t[s - 1])) && (e == N || !ref_word_char(t[e])), "word_at_position is not maximal");
            }
            None => panic!("word_at_position missed a word"),
        }
    } else {
        assert!(wp.is_none());
    }
    let bs = find_word_boundaries(&t);
    let mut nb = 2;
    i = 1;
    while i < N {
        if ref_word_char(t[i - 1]) != ref_word_char(t[i]) {
            nb += 1;
        }
        i += 1;
    }
    assert!(bs.len() == nb && bs[0] == 0 && bs[nb - 1] == N, "find_word_boundaries");
    assert!(is_word_char(t[0]) == ref_word_char(t[0]));
    zcover!(cnt == 2, "two words");
    zcover!(cnt == 0, "no word");
    forget(bs);
}
macro_rules! c20_words {
    ($name:ident, $tier:ident, $unwind:literal, $n:literal) => {
        zv_harness! {
            name: $name,
            prop: "C20",
            tier: $tier,
            unwind: $unwind,
            stubs: [alloc::fmt::format => crate::common::stubs::fmt_format],
            targets: "string::word_boundary::{words / WordIterator, word_count, is_word_boundary, word_at_position, find_word_boundaries, is_word_char}",
            bounds: "every byte string of the concrete length N given by the instance (3..4); position symbolic in 0..=N",
            oracle: "words are exactly the maximal runs of [A-Za-z0-9_] in order (count, extent, content ends); boundary / word-at-position / boundary list match the same definition",
            body: { words_n::<$n>() }
        }
    };
}
c20_words!(c20_words_n3, quick, 7, 3);
c20_words!(c20_words_n4, thorough, 8, 4);

// ---------------------------------------------------------------------------------------------
// line splitting (src/string/line_processor.rs LineSplitter)
use zipora::string::LineSplitter;

fn split_fields<const N: usize>(optimized: bool) {
    let raw = sym_ascii::<N>();
    let line = unsafe { core::str::from_utf8_unchecked(&raw) };
    let mut sp = if optimized { LineSplitter::new().with_optimized_strategy() } else { LineSplitter::new() };
    let fields = sp.split(line, ",");
    // definition (str::split): k commas => k + 1 fields, field j is the bytes between comma j-1 and comma j
    let mut commas = 0;
    let mut i = 0;
    while i < N {
        if raw[i] == b',' {
            commas += 1;
        }
        i += 1;
    }
    assert!(fields.len() == commas + 1, "number of fields != number of delimiters + 1");
    let mut total = 0;
    let mut j = 0;
    while j < N + 1 {
        if j < fields.len() {
            total += fields[j].len();
        }
        j += 1;
    }
    assert!(total + commas == N, "fields do not cover the line");
    // first field = bytes before the first comma
    let mut first_len = 0;
    while first_len < N && raw[first_len] != b',' {
        first_len += 1;
    }
    assert!(fields[0].len() == first_len, "first field extent");
    zcover!(commas == 1 && raw[N - 1] == b',', "trailing delimiter (empty last field)");
    zcover!(commas == 0, "no delimiter");
    forget(sp);
}
macro_rules! c20_split_fields {
    ($name:ident, $tier:ident, $unwind:literal, $opt:literal, $n:literal) => {
        zv_harness! {
            name: $name,
            prop: "C20",
            tier: $tier,
            unwind: $unwind,
            stubs: [alloc::fmt::format => crate::common::stubs::fmt_format],
            targets: "string::line_processor::LineSplitter::split with the Simple strategy (opt = false) or the Optimized strategy / split_optimized (opt = true), delimiter \",\"",
            bounds: "every ASCII line (bytes < 0x80) of the concrete length N given by the instance",
            oracle: "splitting on a delimiter yields (number of delimiters + 1) fields that together with the delimiters cover the line; the first field ends at the first delimiter (definition of str::split)",
            body: { split_fields::<$n>($opt) }
        }
    };
}
c20_split_fields!(c20_split_simple_n1, thorough, 8, false, 1);
c20_split_fields!(c20_split_optimized_n1, quick, 8, true, 1);
c20_split_fields!(c20_split_optimized_n2, probe, 8, true, 2);

// ---------------------------------------------------------------------------------------------
// line reading (src/string/line_processor.rs LineProcessor::process_lines / read_next_line)
use zipora::string::{LineProcessor, LineProcessorConfig};

/// definition: the input is cut after each '\n'; a line's text is the chunk without its '\n' and
/// without one '\r' directly before that '\n'; a last chunk without '\n' is a line as it stands
/// (a bare trailing '\r' is content) and an empty last chunk is no line.
fn lines_case<const N: usize>(shape: &[u8; N]) {
    // shape: b'L' = a concrete LF at this index; b'C' = text or CR (symbolic choice); b'*' = any ASCII byte
    let mut raw = [0u8; N];
    let mut k = 0;
    while k < N {
        raw[k] = match shape[k] {
            b'L' => b'\n',
            b'C' => {
                if vany::<bool>() {
                    b'\r'
                } else {
                    b'a'
                }
            }
            _ => {
                let b: u8 = vany();
                assume(b < 0x80);
                b
            }
        };
        k += 1;
    }
    let mut starts = [0usize; 8];
    let mut lens = [0usize; 8];
    let mut want = 0usize;
    let mut st = 0usize;
    let mut i = 0;
    while i < N {
        if raw[i] == b'\n' {
            let mut l = i - st;
            if l > 0 && raw[i - 1] == b'\r' {
                l -= 1;
            }
            starts[want] = st;
            lens[want] = l;
            want += 1;
            st = i + 1;
        }
        i += 1;
    }
    if st < N {
        starts[want] = st;
        lens[want] = N - st;
        want += 1;
    }
    // default configuration except for the BufReader capacity (64 KiB by default), which only
    // sets how many bytes are fetched from the reader at a time
    let mut proc_ = LineProcessor::with_config(&raw[..], LineProcessorConfig { buffer_size: 8, ..LineProcessorConfig::default() });
    let mut got = 0usize;
    let mut bad = false;
    let r = proc_.process_lines(|line: &str| {
        let lb = line.as_bytes();
        if got >= want || lb.len() != lens[got] {
            bad = true;
        } else {
            let mut j = 0;
            while j < lb.len() {
                if lb[j] != raw[starts[got] + j] {
                    bad = true;
                }
                j += 1;
            }
        }
        got += 1;
        Ok(true)
    });
    let n = match r {
        Ok(n) => n,
        Err(e) => {
            forget(e);
            panic!("process_lines failed on an in-memory ASCII input")
        }
    };
    assert!(!bad, "a line differs from the definition");
    assert!(got == want && n == want, "number of lines differs from the definition");
    zcover!(want >= 1 && lens[0] >= 1 && raw[starts[0] + lens[0] - 1] == b'\r', "a line whose content ends in CR");
    zcover!(want == 2, "two lines");
    forget(proc_);
}
macro_rules! c20_lines {
    ($name:ident, $tier:ident, $unwind:literal, $shape:literal) => {
        zv_harness! {
            name: $name,
            prop: "C20",
            tier: $tier,
            unwind: $unwind,
            stubs: [alloc::fmt::format => crate::common::stubs::fmt_format,
                    std::rt::thread_cleanup => crate::common::stubs::noop,
                    core::slice::memchr::memchr => crate::common::stubs::memchr_naive,
                    core::str::from_utf8 => crate::common::stubs::from_utf8_ascii],
            targets: "string::line_processor::LineProcessor::{with_config, process_lines} (read_next_line over BufReader<&[u8]>), default configuration (line endings not preserved) with an 8-byte read buffer",
            bounds: "every input of the shape given by the instance, one letter per byte: L = LF, C = either 'a' or CR (chosen independently per position), * = any ASCII byte; so every mix of LF, CRLF, bare CR and text at the concrete line structure of the shape",
            oracle: "lines and their count equal the definition: cut after each LF, drop that LF and one CR directly before it, keep everything else (incl. a CR that is content and a last line without LF)",
            body: { lines_case($shape) }
        }
    };
}
// none of these finishes within the quick caps (std BufReader::read_line under CBMC): thorough tier only
c20_lines!(c20_lines_ccl, probe, 8, b"CCL");
c20_lines!(c20_lines_clcl, probe, 9, b"CLCL");
c20_lines!(c20_lines_any2, probe, 8, b"**");

// ---------------------------------------------------------------------------------------------
// lexicographic iterator over a sorted vector (src/string/lexicographic_iterator.rs)
use zipora::string::{LexicographicIterator, SortedVecLexIterator};

fn ok_bool(r: Result<bool, zipora::error::ZiporaError>) -> bool {
    match r {
        Ok(b) => b,
        Err(e) => {
            forget(e);
            panic!("SortedVecLexIterator returned Err")
        }
    }
}

/// `cur` is exactly element `i` of `v` (same allocation, same length) — identity, not just equal text.
fn is_elem(cur: Option<&str>, v: &[String; 3], i: usize) -> bool {
    match cur {
        Some(s) => s.as_ptr() == v[i].as_ptr() && s.len() == v[i].len(),
        None => false,
    }
}

fn lexiter3<const L0: usize, const L1: usize, const L2: usize, const LT: usize>() {
    let r0 = sym_ascii::<L0>();
    let r1 = sym_ascii::<L1>();
    let r2 = sym_ascii::<L2>();
    let rt = sym_ascii::<LT>();
    assume(ref_cmp(&r0, &r1) != Ordering::Greater && ref_cmp(&r1, &r2) != Ordering::Greater);
    let v: [String; 3] = [
        String::from(unsafe { core::str::from_utf8_unchecked(&r0) }),
        String::from(unsafe { core::str::from_utf8_unchecked(&r1) }),
        String::from(unsafe { core::str::from_utf8_unchecked(&r2) }),
    ];
    let target = unsafe { core::str::from_utf8_unchecked(&rt) };
    let mut it = SortedVecLexIterator::new(&v);
    // forward: every element once, in order, then the end
    assert!(is_elem(it.current(), &v, 0) && it.is_at_start());
    assert!(ok_bool(it.next()) && is_elem(it.current(), &v, 1));
    assert!(ok_bool(it.next()) && is_elem(it.current(), &v, 2));
    assert!(!ok_bool(it.next()) && it.current().is_none() && it.is_at_end());
    // backward from the end
    assert!(ok_bool(it.seek_end()) && is_elem(it.current(), &v, 2));
    assert!(ok_bool(it.prev()) && is_elem(it.current(), &v, 1));
    assert!(ok_bool(it.prev()) && is_elem(it.current(), &v, 0));
    assert!(!ok_bool(it.prev()) && is_elem(it.current(), &v, 0));
    // lower bound: first string >= target; iterating on from there yields exactly the strings >= target
    let ge = [
        ref_cmp(&r0, &rt) != Ordering::Less,
        ref_cmp(&r1, &rt) != Ordering::Less,
        ref_cmp(&r2, &rt) != Ordering::Less,
    ];
    let n_ge = ge[0] as usize + ge[1] as usize + ge[2] as usize;
    let exact_ref = n_ge > 0 && {
        let lb = 3 - n_ge;
        let e = if lb == 0 { ref_cmp(&r0, &rt) } else if lb == 1 { ref_cmp(&r1, &rt) } else { ref_cmp(&r2, &rt) };
        e == Ordering::Equal
    };
    let exact = ok_bool(it.seek_lower_bound(target));
    assert!(exact == exact_ref, "seek_lower_bound: exact-match flag");
    let mut seen = 0;
    if it.current().is_some() {
        seen = 1;
        while seen < 4 && ok_bool(it.next()) {
            seen += 1;
        }
    }
    assert!(seen == n_ge, "seek_lower_bound does not land on the FIRST string >= target (strings skipped or repeated)");
    // upper bound: first string > target
    let n_gt = (ref_cmp(&r0, &rt) == Ordering::Greater) as usize
        + (ref_cmp(&r1, &rt) == Ordering::Greater) as usize
        + (ref_cmp(&r2, &rt) == Ordering::Greater) as usize;
    let _ = ok_bool(it.seek_upper_bound(target));
    let mut seen_gt = 0;
    if it.current().is_some() {
        seen_gt = 1;
        while seen_gt < 4 && ok_bool(it.next()) {
            seen_gt += 1;
        }
    }
    assert!(seen_gt == n_gt, "seek_upper_bound does not land on the first string > target");
    // an empty target is <= every string: neither situation exists for LT == 0
    zcover!(LT == 0 || (n_ge == 2 && exact), "exact hit in the middle");
    zcover!(LT == 0 || n_ge == 0, "target beyond the last string");
    forget(v);
}
macro_rules! c20_lexiter3 {
    ($name:ident, $tier:ident, $unwind:literal, $l0:literal, $l1:literal, $l2:literal, $lt:literal) => {
        zv_harness! {
            name: $name,
            prop: "C20",
            tier: $tier,
            unwind: $unwind,
            stubs: [alloc::fmt::format => crate::common::stubs::fmt_format],
            targets: "SortedVecLexIterator::{new, current, next, prev, seek_end, seek_lower_bound, seek_upper_bound (trait default), is_at_start, is_at_end}",
            bounds: "three sorted ASCII strings (duplicates allowed) of the concrete lengths L0, L1, L2 and a target of length LT given by the instance; all bytes symbolic < 0x80",
            oracle: "forward / backward enumeration visits each element exactly once in order (element identity); after seek_lower_bound(t) the remaining strings are exactly those >= t and the flag says whether the first of them equals t; after seek_upper_bound(t) exactly those > t",
            body: { lexiter3::<$l0, $l1, $l2, $lt>() }
        }
    };
}
c20_lexiter3!(c20_lexiter3_1_1_1_t1, quick, 8, 1, 1, 1, 1);
c20_lexiter3!(c20_lexiter3_0_1_2_t1, thorough, 8, 0, 1, 2, 1);
c20_lexiter3!(c20_lexiter3_0_0_1_t0, thorough, 8, 0, 0, 1, 0);

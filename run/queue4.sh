#!/bin/bash
cd /verif
ev() { echo "### $1 $2 $3 $4 $5 $6"; ZV_JOBS=4 python3 run/seed_eval.py /tmp/mut/head3 /verif/seeded/$1/patch.diff $2 $3 $4 $5 $6 2>&1 | tail -n 8; }
ev c15-m1 C15 --only "c15_vie_group_seq_u64_n3"
ev c13-m5 C13 --only "complex_batch_k0"

#!/bin/sh
# usage: run/mkscratch.sh <name>  -> /tmp/zvw/<name>/{harness,target,evidence}; prints the env to use
set -e
D=/tmp/zvw/$1
mkdir -p $D/target $D/evidence
rm -rf $D/harness
cp -r /verif/harness $D/harness
rm -rf $D/harness/target
echo "export ZV_HARNESS=$D/harness ZV_TARGET=$D/target ZV_EVIDENCE=$D/evidence ZV_JOBS=3 ZV_MEM_GB=9"

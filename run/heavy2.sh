#!/bin/bash
# heavier harnesses worth keeping in the thorough tier if they decide: one run each with the thorough caps
cd /verif
while ps -eo args | grep -v grep | grep -q "run/sweep.sh"; do sleep 30; done
ZV_JOBS=3 ZV_CAP_S=2400 ZV_MEM_GB=18 python3 run/check.py C08 --tier probe --no-evidence --only "c08_lfpool" --status-out logs/sweep/C08_heavy.json > logs/heavy2_C08.log 2>&1
echo "C08 done $(grep obligations= logs/heavy2_C08.log | tail -n 1)"
ZV_JOBS=3 ZV_CAP_S=2400 ZV_MEM_GB=18 python3 run/check.py C07 --tier probe --no-evidence --only "c07_lockfree_class|c07_lockfree_recycle_s64" --status-out logs/sweep/C07_heavy.json > logs/heavy2_C07.log 2>&1
echo "C07 done $(grep obligations= logs/heavy2_C07.log | tail -n 1)"

#!/bin/bash
# usage: seed_confirm.sh <worktree> <n> <seed-id> <property> <lib test filter>
# Confirms a seeded change independently: with the patch the demo FAILS and the module's unit tests PASS;
# without the patch the demo PASSES. Copies patch/demo/meta into /verif/seeded/<seed-id>/.
wt=$1; n=$2; id=$3; prop=$4; filt=$5
out=/verif/seeded/$id; mkdir -p $out
export CARGO_TARGET_DIR=$wt/target CARGO_NET_OFFLINE=true
cd $wt && git checkout -q -- . && git clean -fdq tests/ examples/ 2>/dev/null; git checkout -q --detach main
[ -f $out/patch.diff ] || cp $wt/out/$n/patch.diff $out/patch.diff; cp $wt/out/$n/demo.rs $out/demo.rs; cp $wt/out/$n/meta.json $out/agent_meta.json
log=$out/confirm.log; : > $log
cp $out/demo.rs tests/zz_seed_demo.rs
echo "== demo on clean tree" >> $log
timeout 1500 cargo test --offline -j 4 --test zz_seed_demo -- --test-threads=4 >> $log 2>&1; clean_rc=$?
git apply $out/patch.diff || { echo "PATCH DOES NOT APPLY" >> $log; exit 1; }
echo "== build + module unit tests with the change (filter: $filt)" >> $log
timeout 2400 cargo test --offline -j 4 --lib $filt >> $log 2>&1; suite_rc=$?
echo "== demo with the change" >> $log
timeout 1500 cargo test --offline -j 4 --test zz_seed_demo -- --test-threads=4 >> $log 2>&1; mut_rc=$?
git checkout -q -- . ; rm -f tests/zz_seed_demo.rs
echo "RESULT id=$id property=$prop demo_clean_rc=$clean_rc unit_tests_with_change_rc=$suite_rc demo_with_change_rc=$mut_rc" | tee -a $log

#!/bin/bash
# usage: final_pass_list.sh <tier> <jobs> <Cxx>...
cd /verif
tier=$1; jobs=$2; shift 2
for p in "$@"; do
  ZV_JOBS=$jobs python3 run/check.py $p --tier $tier > logs/final_${tier}_$p.log 2>&1; rc=$?
  echo "$(date +%H:%M) $p rc=$rc $(grep obligations= logs/final_${tier}_$p.log | tail -n 1 | cut -c1-140)"
done

#!/usr/bin/env python3
"""One-time warm-up after a fresh restore (offline): builds zipora's dependencies and zipora
itself under Kani into /verif/target/kani so that the first check does not pay for it."""
import os, subprocess, sys
sys.path.insert(0, os.path.dirname(os.path.abspath(__file__)))
from check import HARNESS, KANI_TD, ENV, TARGET, Lock
os.makedirs(TARGET, exist_ok=True)
with Lock(os.path.join(TARGET, "kani.lock")):
    p = subprocess.run(["cargo", "kani", "-Z", "stubbing", "--only-codegen", "--exact", "--harness",
                        "c13_serial::c13_varint_u64", "--features", "p_c13", "--target-dir", KANI_TD], cwd=HARNESS, env=ENV,
                       stdout=subprocess.PIPE, stderr=subprocess.STDOUT, text=True)
print("\n".join(p.stdout.splitlines()[-5:]))
sys.exit(p.returncode)

#!/usr/bin/env python3
"""Regenerates seeded/<id>/meta.json from agent_meta.json, confirm.log and seeded/detection.json."""
import json, os, re
root = "/verif/seeded"
det = json.load(open(os.path.join(root, "detection.json")))
for sid in sorted(os.listdir(root)):
    d = os.path.join(root, sid)
    if not os.path.isdir(d):
        continue
    am = json.load(open(d + "/agent_meta.json")) if os.path.exists(d + "/agent_meta.json") else {}
    log = open(d + "/confirm.log").read() if os.path.exists(d + "/confirm.log") else ""
    res = re.findall(r"RESULT .*", log)
    st = det.get(sid, {"status": "pending", "by": ""})
    meta = dict(
        id=sid, property=am.get("property", sid[:3].upper()), summary=am.get("summary"),
        needs_to_manifest=am.get("what_it_needs_to_manifest"), files_touched=am.get("files_touched"),
        produced_by="independent sub-agent given only the property text and a scratch git worktree of /repo (nothing from /verif)",
        confirmed_by_lead=dict(
            how="run/seed_confirm.sh in the scratch worktree: demo test on the clean tree, unit tests of the touched module with the change, demo test with the change",
            result=res[-1] if res else "not confirmed yet",
            note="rc 0 = pass, 101 = test failure; the only unit tests that ever fail are the timing-based int_vec performance tests (flaky in BASELINE.json)"),
        agent_reported_full_suite=am.get("suite_result"),
        detection=st,
        evaluated_with="run/seed_eval.py <worktree at /repo HEAD> seeded/%s/patch.diff %s ..." % (sid, am.get("property", sid[:3].upper())),
    )
    json.dump(meta, open(d + "/meta.json", "w"), indent=1)
print("ok")

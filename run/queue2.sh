#!/bin/bash
# second evaluation queue (worktree head2)
cd /verif
git -C /tmp/mut/head2 checkout -q -- . ; git -C /tmp/mut/head2 checkout -q --detach main
ev() { echo "### $1 $2 $3 $4 $5"; ZV_JOBS=6 python3 run/seed_eval.py /tmp/mut/head2 /verif/seeded/$1/patch.diff $2 $3 $4 $5 $6 2>&1 | tail -n 7; }
ev c16-m3 C16 --only "writer_at40"
ev c16-m4 C16 --only "reader_at41"
ev c16-m5 C16 --only "stshared|ststrict|mwmr"
ev c08-m3 C08 --only "treiber_push"
ev c08-m4 C08 --only "treiber_single"
ev c08-m5 C08 --only "treiber_pop|treiber_single"
ev c15-m1 C15 --only "c15_vie_group_seq_u64_n3"
for n in 3 4 5; do k=$((n-2)); run/seed_confirm.sh /tmp/mut/m16b $k c16-m$n C16 fsa:: ; done; rm -rf /tmp/mut/m16b/target
for n in 3 4 5; do k=$((n-2)); run/seed_confirm.sh /tmp/mut/m08b $k c08-m$n C08 memory:: ; done; rm -rf /tmp/mut/m08b/target

#!/usr/bin/env python3
"""Evaluate the checks against a seeded change without touching /repo:
   run/seed_eval.py <worktree> <patch.diff> <Cxx> [extra check.py args...]
Applies the patch in the given git worktree of /repo, points a scratch copy of the harness crate at
that worktree, runs run/check.py there (own target dir), prints its tail and exit code, then
reverts the worktree. (Final confirmation against /repo itself: git -C /repo apply ...; run; undo.)"""
import os, re, shutil, subprocess, sys
wt, patch, prop = sys.argv[1], sys.argv[2], sys.argv[3]
extra = sys.argv[4:]
tag = os.path.basename(wt.rstrip("/"))
scr = f"/tmp/zvw/eval-{tag}"
os.makedirs(scr, exist_ok=True)
h = os.path.join(scr, "harness")
shutil.rmtree(h, ignore_errors=True)
shutil.copytree("/verif/harness", h, ignore=shutil.ignore_patterns("target"))
ct = open(os.path.join(h, "Cargo.toml")).read().replace('path = "/repo"', f'path = "{wt}"')
open(os.path.join(h, "Cargo.toml"), "w").write(ct)
subprocess.run(["git", "-C", wt, "checkout", "--", "."], check=True)
subprocess.run(["git", "-C", wt, "checkout", "-q", "--detach", "main"], check=True)  # always the current /repo HEAD
r = subprocess.run(["git", "-C", wt, "apply", patch])
if r.returncode != 0:
    print("PATCH DOES NOT APPLY"); sys.exit(3)
env = dict(os.environ, ZV_HARNESS=h, ZV_TARGET=os.path.join(scr, "target"), ZV_EVIDENCE=os.path.join(scr, "evidence"))
try:
    p = subprocess.run(["python3", "/verif/run/check.py", prop, "--no-evidence"] + extra, env=env,
                       stdout=subprocess.PIPE, stderr=subprocess.STDOUT, text=True)
    lines = p.stdout.splitlines()
    keep = [l[:260] for l in lines if re.search(r"VIOLATION|UNCONFIRMED|KNOWN-FINDING|counterexample|INCONCLUSIVE|BUILD FAILED|error|obligations=|native replay", l)]
    print("\n".join(keep[-40:]))
    print(f"EXIT={p.returncode}")
finally:
    subprocess.run(["git", "-C", wt, "checkout", "--", "."])

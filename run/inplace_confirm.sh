#!/bin/bash
# the prescribed way: apply a seeded change to /repo itself, run the registered quick command (without rewriting the
# committed evidence), undo. usage: inplace_confirm.sh <seed-id>:<Cxx> ...
cd /verif
export ZV_EVIDENCE=/tmp/zvw/inplace-evidence
mkdir -p $ZV_EVIDENCE
for item in "$@"; do
  sid=${item%%:*}; prop=${item##*:}
  git -C /repo status --short | grep -q . && { echo "/repo not clean, stopping"; exit 1; }
  git -C /repo apply /verif/seeded/$sid/patch.diff || { echo "$sid: patch does not apply"; continue; }
  ZV_JOBS=14 python3 run/check.py $prop --tier quick --no-evidence > logs/inplace_$sid.log 2>&1; rc=$?
  git -C /repo checkout -- .
  echo "$(date +%H:%M) $sid $prop exit=$rc $(grep -c '^VIOLATION' logs/inplace_$sid.log) VIOLATION line(s); $(grep obligations= logs/inplace_$sid.log | tail -n 1 | cut -c1-120)"
done
git -C /repo status --short

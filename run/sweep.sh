#!/bin/bash
# classification sweep: every thorough-only harness once, with the quick caps, to learn which ones decide
cd /verif
for p in ${@:-C15 C13 C09 C11 C04 C20 C14 C02 C01 C10 C12 C07 C08 C16 C19}; do
  echo "### $(date +%H:%M) $p"
  ZV_JOBS=${SWEEP_JOBS:-5} ZV_CAP_S=${SWEEP_CAP:-600} ZV_MEM_GB=12 python3 run/check.py $p --tier thorough --skip-quick --no-evidence --status-out logs/sweep/$p.json > logs/sweep/$p.log 2>&1
  echo "$p rc=$? $(grep -c discharged logs/sweep/$p.log) discharged; $(tail -n 3 logs/sweep/$p.log | grep obligations | cut -c1-140)"
done

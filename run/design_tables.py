#!/usr/bin/env python3
"""Fills the two generated tables of DESIGN.md section 7 (seed table, per-property status) from
seeded/detection.json, seeded/*/agent_meta.json, the harness registry and evidence/*.json."""
import json, os, re, glob, collections, sys
sys.path.insert(0, os.path.dirname(os.path.abspath(__file__)))
from check import load_registry, VERIF

def seed_table():
    det = json.load(open(os.path.join(VERIF, "seeded", "detection.json")))
    rows = ["| seed | change (agent's summary, shortened) | outcome | by which harness / why not |", "|---|---|---|---|"]
    def key(k):
        m = re.match(r"c(\d+)-m(\d+)", k); return (int(m.group(1)), int(m.group(2)))
    for sid in sorted(det, key=key):
        mp = os.path.join(VERIF, "seeded", sid, "agent_meta.json")
        summ = ""
        if os.path.exists(mp):
            summ = json.load(open(mp)).get("summary", "")
        summ = re.sub(r"\s+", " ", summ).replace("|", "/")
        if len(summ) > 150:
            summ = summ[:147] + "..."
        rows.append(f"| {sid} | {summ} | {det[sid]['status']} | {det[sid]['by'].replace('|', '/')} |")
    c = collections.Counter(v["status"].split()[0] for v in det.values())
    head = (f"{len(det)} changes were kept; outcome counts by first word of the status: "
            + ", ".join(f"{k} {v}" for k, v in sorted(c.items())) + ".\n\n")
    return head + "\n".join(rows)

TEXT = json.load(open(os.path.join(VERIF, "run", "status_text.json")))

def status_table():
    reg = load_registry()
    cnt = collections.Counter((h["prop"], h["tier"]) for h in reg.values() if "twin" not in h["flags"])
    rows = ["| id | quick / thorough-only / probe harnesses | what the quick set decides | main things outside it (probe tier or not built) |", "|---|---|---|---|"]
    for pid in sorted(TEXT):
        q, t, p = cnt[(pid, "quick")], cnt[(pid, "thorough")], cnt[(pid, "probe")]
        rows.append(f"| {pid} | {q} / {t} / {p} | {TEXT[pid][0]} | {TEXT[pid][1]} |")
    pre = ("\"quick set\" = harnesses run by `quick_cmd`; every one of them was seen to decide inside the quick caps (600 s / 12 GB per "
           "harness) on this machine. `thorough_cmd` runs the quick set plus the thorough-only harnesses, all of which decided in the "
           "classification sweep. Probe harnesses are not run by any registered command. The bounds of every harness are in the "
           "`bounds:` string next to it and in `evidence/<id>.json`. C03, C05, C17, C18: not applicable (7.3).\n\n")
    return pre + "\n".join(rows)

s = open(os.path.join(VERIF, "DESIGN.md")).read()
def fill(s, tag, body):
    a, b = f"<!-- {tag}:begin -->", f"<!-- {tag}:end -->"
    if tag.upper() + "_PLACEHOLDER" in s:
        return s.replace(tag.upper() + "_PLACEHOLDER", f"the table below is generated from it.\n\n{a}\n{body}\n{b}" if tag == "seed_table" else f"{a}\n{body}\n{b}")
    i, j = s.index(a), s.index(b)
    return s[:i] + a + "\n" + body + "\n" + s[j:]
s = fill(s, "seed_table", seed_table())
s = fill(s, "status_table", status_table())
open(os.path.join(VERIF, "DESIGN.md"), "w").write(s)
print("DESIGN.md tables regenerated")

#!/usr/bin/env python3
"""Runner for the zipora property checks (see /verif/DESIGN.md section 5).

  run/check.py <Cxx> [--tier quick|thorough] [--only <substr>] [--replay <path>] [--keep]

Deciding step: Kani 0.68 compiles /repo (current working tree) + the harness crate to one
CBMC goto program per harness; CBMC 6.11 unrolls to the stated bound and CaDiCaL decides the
formula. unsat => discharged for every symbolic input inside the bound; sat => counterexample,
extracted with Kani concrete playback and replayed natively before a VIOLATION is printed.

Exit: 0 all explored obligations held (KNOWN-FINDING lines allowed), 1 VIOLATION, 2 infrastructure
error (build failure, unconfirmed counterexample, nothing discharged).
"""
import argparse, fcntl, json, os, re, resource, shutil, signal, subprocess, sys, threading, time
from concurrent.futures import ThreadPoolExecutor

VERIF = os.path.dirname(os.path.dirname(os.path.abspath(__file__)))
# ZV_HARNESS / ZV_TARGET / ZV_EVIDENCE let a scratch copy of the harness crate be driven by the same runner
HARNESS = os.environ.get("ZV_HARNESS", os.path.join(VERIF, "harness"))
TARGET = os.environ.get("ZV_TARGET", os.path.join(VERIF, "target"))
EVIDENCE = os.environ.get("ZV_EVIDENCE", os.path.join(VERIF, "evidence"))
KANI_TD = os.path.join(TARGET, "kani")
NATIVE_TD = os.path.join(TARGET, "native")
PLAYBACK_TD = os.path.join(TARGET, "playback")
KANI_LIB_C = os.path.expanduser("~/.kani/kani-0.68.0/library/kani/kani_lib.c")
ENV = dict(os.environ, CARGO_NET_OFFLINE="true", CARGO_TERM_COLOR="never")
NCPU = os.cpu_count() or 4

CAPS = {"quick": dict(time=int(os.environ.get("ZV_CAP_S", 600)), mem_gb=float(os.environ.get("ZV_MEM_GB", 12))),
        "thorough": dict(time=int(os.environ.get("ZV_CAP_S", 3600)), mem_gb=float(os.environ.get("ZV_MEM_GB", 24)))}

MEMSAFE_CLASSES = ("pointer_dereference", "pointer_arithmetic", "pointer", "memory-leak",
                   "deallocated", "misaligned", "safety_check")


def log(*a):
    print(*a, flush=True)


# ----------------------------------------------------------------------------- registry
FIELD_RE = {
    "prop": r'prop:\s*"([^"]+)"',
    "tier": r"tier:\s*(\w+)",
    "unwind": r"unwind:\s*(\d+)",
    "targets": r'targets:\s*"((?:[^"\\]|\\.)*)"',
    "bounds": r'bounds:\s*"((?:[^"\\]|\\.)*)"',
    "oracle": r'oracle:\s*"((?:[^"\\]|\\.)*)"',
}


def _parse_head(head):
    h = {}
    for k, rx in FIELD_RE.items():
        mm = re.search(rx, head)
        h[k] = mm.group(1) if mm else ""
    mm = re.search(r"stubs:\s*\[(.*?)\]\s*,\s*targets", head, re.S)
    h["stubs"] = [" ".join(s.split()) for s in re.findall(r"([^,\[\]]+?)\s*=>", mm.group(1))] if mm else []
    mm = re.search(r"flags:\s*\[(.*?)\]", head)
    h["flags"] = [f.strip() for f in mm.group(1).split(",") if f.strip()] if mm else []
    mm = re.search(r'kf:\s*"([^"]+)"', head)
    h["kf"] = mm.group(1) if mm else None
    mm = re.search(r"cap:\s*(\d+)", head)
    h["cap"] = int(mm.group(1)) if mm else None
    mm = re.search(r'cbmc:\s*"([^"]*)"', head)
    h["cbmc"] = mm.group(1).split() if mm else []
    return h


def load_registry():
    """Parse every zv_harness! invocation in harness/src/*.rs. A *family* is a local
    `macro_rules! fam { ($name:ident, $tier:ident, $unwind:literal, ...) => { zv_harness!{..} } }`;
    each `fam!(name, tier, unwind, args..);` line is one harness (args are appended to its bounds)."""
    reg = {}
    src = os.path.join(HARNESS, "src")
    for fn in sorted(os.listdir(src)):
        if not fn.endswith(".rs") or fn == "lib.rs":
            continue
        text = open(os.path.join(src, fn)).read()
        mod = fn[:-3]
        fams = {}
        for m in re.finditer(r"macro_rules!\s*(\w+)\s*\{.*?zv_harness!\s*\{\s*name:\s*\$name\s*,(.*?)body:", text, re.S):
            fams[m.group(1)] = _parse_head(m.group(2))
        for m in re.finditer(r"zv_harness!\s*\{\s*name:\s*(\w+)\s*,(.*?)body:", text, re.S):
            name, head = m.group(1), m.group(2)
            h = _parse_head(head)
            h.update(name=name, module=mod, full=f"{mod}::{name}", unwind=int(h["unwind"] or 0))
            reg[name] = h
        for fam, tmpl in fams.items():
            for m in re.finditer(r"^\s*" + fam + r"!\s*\(\s*(\w+)\s*,\s*(\w+)\s*,\s*(\d+)\s*(?:,(.*?))?\)\s*;", text, re.M | re.S):
                name, tier, unwind, rest = m.group(1), m.group(2), int(m.group(3)), (m.group(4) or "").strip()
                h = dict(tmpl)
                h.update(name=name, module=mod, full=f"{mod}::{name}", tier=tier, unwind=unwind, family=fam,
                         bounds=tmpl["bounds"] + (f" [instance: {' '.join(rest.split())}]" if rest else ""))
                reg[name] = h
    return reg


def load_known_findings():
    p = os.path.join(VERIF, "known_findings.json")
    if not os.path.exists(p):
        return []
    return json.load(open(p)).get("findings", [])


# ----------------------------------------------------------------------------- build
class Lock:
    def __init__(self, path):
        self.path = path

    def __enter__(self):
        os.makedirs(os.path.dirname(self.path), exist_ok=True)
        self.f = open(self.path, "w")
        fcntl.flock(self.f, fcntl.LOCK_EX)

    def __exit__(self, *a):
        fcntl.flock(self.f, fcntl.LOCK_UN)
        self.f.close()


def kani_codegen(harnesses, features, workdir):
    """cargo kani --only-codegen for the selected harnesses; copy goto binaries to workdir.
    Returns {name: symtab path}."""
    os.makedirs(workdir, exist_ok=True)
    cmd = ["cargo", "kani", "-Z", "stubbing", "--only-codegen", "--exact",
           "--target-dir", KANI_TD]
    if features:
        cmd += ["--features", ",".join(features)]
    for h in harnesses:
        cmd += ["--harness", h["full"]]
    t0 = time.time()
    with Lock(os.path.join(TARGET, "kani.lock")):
        p = subprocess.run(cmd, cwd=HARNESS, env=ENV, stdout=subprocess.PIPE, stderr=subprocess.STDOUT, text=True)
        open(os.path.join(workdir, "build.log"), "w").write(p.stdout)
        if p.returncode != 0:
            errs = [l for l in p.stdout.splitlines() if l.startswith("error") or l.startswith("  -->")][:30]
            log("BUILD FAILED (cargo kani --only-codegen):")
            for l in errs:
                log("  " + l[:300])
            return None, time.time() - t0
        out = {}
        mds = []
        for root, _d, files in os.walk(os.path.join(KANI_TD, "kani")):
            for f in files:
                if f.startswith("zv-") and f.endswith(".kani-metadata.json"):
                    mds.append(os.path.join(root, f))
        # several metadata files live side by side (one per feature set / harness selection). An up-to-date build
        # is not rewritten by cargo, so "the newest file" may belong to another property: take the newest one that
        # lists every requested harness and whose goto files exist
        mds.sort(key=os.path.getmtime, reverse=True)
        want = {h["name"] for h in harnesses}
        md = None
        for cand in mds:
            try:
                c = json.load(open(cand))
            except Exception:
                continue
            have = {ph["pretty_name"].split("::")[-1]: ph for ph in c.get("proof_harnesses", [])}
            if want <= set(have) and all(os.path.exists(have[n]["goto_file"]) for n in want):
                md = c
                break
        if md is None:
            log("BUILD PROBLEM: no kani metadata lists all requested harnesses")
            return None, time.time() - t0
        for ph in md["proof_harnesses"]:
            nm = ph["pretty_name"].split("::")[-1]
            if nm not in want:
                continue
            dst = os.path.join(workdir, nm + ".symtab.out")
            shutil.copyfile(ph["goto_file"], dst)
            out[nm] = dict(symtab=dst, mangled=ph["mangled_name"], unwind=ph["attributes"]["unwind_value"],
                           stubs=[s["original"].replace(" ", "") for s in ph["attributes"]["stubs"]])
        for u in md.get("unsupported_features", []):
            pass
    return out, time.time() - t0


# ----------------------------------------------------------------------------- cbmc pipeline
def _limits(mem_gb):
    def f():
        os.setsid()
        b = int(mem_gb * (1 << 30))
        resource.setrlimit(resource.RLIMIT_AS, (b, b))
    return f


RUNNING = {}
RUNNING_LOCK = threading.Lock()
WATCHDOG_KILLED = set()


def run_stage(name, cmd, out_path, timeout, mem_gb):
    t0 = time.time()
    with open(out_path, "w") as fo:
        p = subprocess.Popen(cmd, stdout=fo, stderr=subprocess.STDOUT, preexec_fn=_limits(mem_gb))
        with RUNNING_LOCK:
            RUNNING[name] = p
        try:
            rc = p.wait(timeout=timeout)
            to = False
        except subprocess.TimeoutExpired:
            os.killpg(p.pid, signal.SIGKILL)
            p.wait()
            rc, to = -9, True
        with RUNNING_LOCK:
            RUNNING.pop(name, None)
        if p.pid in WATCHDOG_KILLED:
            rc = -999
    return rc, to, time.time() - t0


def resolve_cbmc_args(h, out, workdir):
    """Per-harness CBMC options, with `--unwindset-fn f:B[,g:C..]` turned into CBMC's `--unwindset`: every loop
    of a function whose (mangled) identifier contains the plain name `f` gets the bound B, and so does the
    recursion of `f` itself. Loop identifiers are read from `cbmc --show-loops` on the prepared goto program,
    so they follow /repo's current source."""
    args = list(h.get("cbmc", []))
    if "--unwindset-fn" not in args:
        return args
    i = args.index("--unwindset-fn")
    spec = args[i + 1]
    del args[i:i + 2]
    want = [(x.split(":")[0], x.split(":")[1]) for x in spec.split(",") if ":" in x]
    lp = os.path.join(workdir, h["name"] + ".loops.txt")
    run_stage(h["name"] + "#loops", ["cbmc", "--show-loops", out], lp, 300, 8)
    ids = re.findall(r"^Loop (\S+):", open(lp, errors="replace").read(), re.M)
    items = []
    for fn, b in want:
        tag = f"{len(fn)}{fn}"          # v0 mangling: <len><name>
        funcs = set()
        for lid in ids:
            f = lid.rsplit(".", 1)[0]
            if tag in f:
                items.append(f"{lid}:{b}")
                funcs.add(f)
        for f in sorted(funcs):
            if f.endswith(tag) or re.search(re.escape(tag) + r"(B\w*_|Cs\w+_\w+)?$", f):
                items.append(f"{f}:{b}")     # recursion bound of the function itself
    try:
        os.remove(lp)
    except OSError:
        pass
    if items:
        args += ["--unwindset", ",".join(items)]
    return args


def verify_one(h, art, workdir, cap_t, cap_mem):
    """goto-cc / goto-instrument / cbmc exactly as kani-driver 0.68 runs them."""
    name = h["name"]
    res = dict(name=name, status="inconclusive", reason="", failed=[], covers={}, vccs=None, vccs_remaining=None,
               sat_vars=None, sat_clauses=None, solver_s=0.0, symex_s=None, wall_s=0.0, steps=None)
    t0 = time.time()
    out = os.path.join(workdir, name + ".out")
    lg = os.path.join(workdir, name + ".prep.log")
    prep = [
        ["goto-cc", art["symtab"], KANI_LIB_C, "-o", out],
        ["goto-cc", out, "--function", art["mangled"], "-o", out],
        ["goto-instrument", "--add-library", "--no-malloc-may-fail", out, out],
        ["goto-instrument", "--generate-function-body-options", "assert-false-assume-false",
         "--generate-function-body", ".*", "--drop-unused-functions", out, out],
        ["goto-instrument", "--ensure-one-backedge-per-target", out, out],
    ]
    for c in prep:
        rc, to, _ = run_stage(name, c, lg, cap_t, cap_mem)
        if rc == -999:
            res["reason"] = "killed by the runner's watchdog: the machine was about to run out of memory (other jobs)"
            res["wall_s"] = time.time() - t0
            return res
        if rc != 0:
            res["reason"] = f"prep stage failed rc={rc}: {' '.join(c[:3])}"
            res["wall_s"] = time.time() - t0
            return res
    cb = ["cbmc", "--no-malloc-may-fail", "--no-undefined-shift-check", "--no-signed-overflow-check", "--nan-check",
          "--no-self-loops-to-assumptions", "--no-pointer-primitive-check", "--object-bits", "16"]
    if art["unwind"] is not None:
        cb += ["--unwind", str(art["unwind"])]
    extra = resolve_cbmc_args(h, out, workdir)  # per-harness extra CBMC options (e.g. --max-field-sensitivity-array-size N)
    res["cbmc_extra"] = extra
    cb += extra
    cb += ["--sat-solver", "cadical", "--slice-formula", out, "--verbosity", "9", "--json-ui"]
    jpath = os.path.join(workdir, name + ".cbmc.json")
    remaining = max(30, cap_t - (time.time() - t0))
    rc, to, _ = run_stage(name, cb, jpath, remaining, cap_mem)
    res["wall_s"] = time.time() - t0
    if to:
        res["reason"] = f"time cap {cap_t}s reached"
        _scrape_partial(jpath, res)
        return res
    try:
        data = json.load(open(jpath))
    except Exception as e:
        txt = open(jpath, errors="replace").read()[-2000:]
        if rc == -999:
            res["reason"] = "killed by the runner's watchdog: the machine was about to run out of memory (other jobs)"
        elif "Out of memory" in txt or "bad_alloc" in txt or rc in (-6, -9, -11, 134, 137):
            res["reason"] = f"memory cap {cap_mem} GB reached (rc={rc})"
        else:
            res["reason"] = f"cbmc output unparsable rc={rc}: {e}"
        _scrape_partial(jpath, res)
        return res
    props = None
    status = None
    for item in data:
        if "messageText" in item:
            _scrape_msg(item["messageText"], res)
        if "result" in item:
            props = item["result"]
        if "cProverStatus" in item:
            status = item["cProverStatus"]
    if props is None:
        res["reason"] = f"cbmc produced no result list (rc={rc}, status={status})"
        return res
    res["n_properties"] = len(props)
    failed, unwind_fail, unsupported = [], [], []
    for p in props:
        cls = prop_class(p["property"])
        st = p["status"]
        if cls == "reachability_check":
            continue
        if cls == "cover":
            d = re.sub(r"^\[KANI_CHECK_ID[^\]]*\]\s*", "", p.get("description", ""))
            res["covers"][d + "@" + str(p.get("sourceLocation", {}).get("line", "?"))] = (
                "SATISFIED" if st == "FAILURE" else "UNSATISFIABLE" if st == "SUCCESS" else st)
            continue
        if st == "SUCCESS":
            continue
        rec = dict(pid=p["property"], cls=cls, status=st, desc=re.sub(r"^\[KANI_CHECK_ID[^\]]*\]\s*", "", p.get("description", ""))[:300],
                   loc="%s:%s %s" % (p.get("sourceLocation", {}).get("file", "?"), p.get("sourceLocation", {}).get("line", "?"),
                                      p.get("sourceLocation", {}).get("function", "")[:80]))
        if st != "FAILURE":
            res["reason"] = f"property status {st}" + (" (CBMC: solver ran out of memory at the cap)" if res.get("solver_oom") else "")
            res["failed"].append(rec)
            continue
        if cls == "unwind":
            unwind_fail.append(rec)
        elif cls == "unsupported_construct":
            unsupported.append(rec)
        elif "expect_refusal" in h["flags"] and cls == "assertion" and "ZV_NOT_REFUSED" not in rec["desc"] \
                and rec["loc"].startswith("/"):  # absolute path = code outside the harness crate
            # the harness drives an out-of-contract call that the API documents to refuse by panicking:
            # a failed assertion/panic inside zipora IS the refusal; the sentinel assert!(false, "ZV_NOT_REFUSED")
            # placed after the call must stay unreachable
            res.setdefault("refusals", []).append(rec)
        else:
            failed.append(rec)
    res["checked_properties"] = sum(1 for p in props if prop_class(p["property"]) not in ("reachability_check", "cover"))
    if unsupported:
        res["status"], res["reason"], res["failed"] = "inconclusive", "unsupported construct reachable", unsupported
    elif failed:
        res["status"], res["failed"] = "counterexample", failed + unwind_fail
    elif unwind_fail:
        if "unwind_is_violation" in h["flags"]:
            res["status"], res["failed"] = "counterexample", unwind_fail
        else:
            res["status"], res["reason"], res["failed"] = "inconclusive", "unwinding assertion failed: bound too small", unwind_fail
    elif res["reason"]:
        pass
    else:
        # covers whose message starts with "opt:" are informational, all others are vacuity witnesses
        bad = [k for k, v in res["covers"].items() if v != "SATISFIED" and not k.lstrip('"').startswith("opt:")]
        if "expect_refusal" in h["flags"] and not res.get("refusals"):
            bad.append("expect_refusal: no refusal (panic inside zipora) was reachable")
        if not res["covers"]:
            res["status"], res["reason"] = "inconclusive", "no reachability witness (cover) in harness"
        elif bad and "covers_optional" not in h["flags"]:
            res["status"], res["reason"] = "inconclusive", "vacuous: cover not satisfied: " + "; ".join(bad)[:300]
        else:
            res["status"] = "discharged"
    return res


def prop_class(pid):
    parts = pid.split(".")
    return parts[-2] if len(parts) >= 2 else pid


def _scrape_msg(t, res):
    m = re.match(r"Generated (\d+) VCC\(s\), (\d+) remaining", t)
    if m:
        res["vccs"], res["vccs_remaining"] = int(m.group(1)), int(m.group(2))
    m = re.match(r"(\d+) variables, (\d+) clauses", t)
    if m:
        res["sat_vars"], res["sat_clauses"] = int(m.group(1)), int(m.group(2))
    m = re.match(r"Runtime decision procedure: ([\d.e+-]+)s", t)
    if m:
        res["solver_s"] += float(m.group(1))
    m = re.match(r"Runtime Symex: ([\d.e+-]+)s", t)
    if m:
        res["symex_s"] = float(m.group(1))
    if t.startswith("Solver ran out of memory"):
        res["solver_oom"] = True
    m = re.match(r"size of program expression: (\d+) steps", t)
    if m:
        res["steps"] = int(m.group(1))


def _scrape_partial(jpath, res):
    try:
        for l in open(jpath, errors="replace"):
            m = re.search(r'"messageText": "(.*)"', l)
            if m:
                _scrape_msg(m.group(1), res)
    except Exception:
        pass


def mem_watchdog(stop):
    """Kill the largest running job when the machine is about to run out of memory."""
    while not stop.is_set():
        time.sleep(3)
        try:
            avail = int(re.search(r"MemAvailable:\s+(\d+)", open("/proc/meminfo").read()).group(1)) / (1 << 20)
        except Exception:
            continue
        if avail < 4.0:
            with RUNNING_LOCK:
                best, brss = None, 0
                for n, p in RUNNING.items():
                    try:
                        rss = int(open(f"/proc/{p.pid}/statm").read().split()[1]) * 4096
                    except Exception:
                        rss = 0
                    if rss > brss:
                        best, brss = p, rss
                if best:
                    WATCHDOG_KILLED.add(best.pid)
                    try:
                        os.killpg(best.pid, signal.SIGKILL)
                    except Exception:
                        pass


# ----------------------------------------------------------------------------- replay
def _trace_values(jpath, pid):
    """[(seq, bytes)] of the vany() calls recorded in a CBMC json trace for property pid, or None."""
    try:
        data = json.load(open(jpath))
    except Exception:
        return None
    for item in data:
        for p in item.get("result", []) if isinstance(item, dict) else []:
            if p.get("property") == pid and p.get("status") == "FAILURE" and "trace" in p:
                out, cur, last = [], None, 0
                for st in p["trace"]:
                    if st.get("stepType") != "assignment" or st.get("assignmentType") != "actual-parameter":
                        continue
                    lhs = st.get("lhs")
                    b = st.get("value", {}).get("binary")
                    if lhs == "zv_sym_val":
                        if cur is not None:
                            # the call number of the previous value was not traced (it is a constant along the
                            # path and CBMC may leave such assignments out): take the next number
                            last += 1
                            out.append((last, cur))
                        cur = list(int(b, 2).to_bytes(len(b) // 8, "little")) if b is not None else []
                    elif lhs == "zv_sym_seq" and b is not None:
                        last = int(b, 2)
                        out.append((last, cur if cur is not None else []))
                        cur = None
                if cur is not None:
                    out.append((last + 1, cur))
                return out
    return None


def value_candidates(h, art, workdir, failed, cap_t, cap_mem, features):
    """Candidate input vectors for the native replay, cheapest source first: (1) the trace the deciding CBMC run
    itself printed for one failed property; (2) a re-run of CBMC with --trace restricted to that property on the
    sliced formula, (3) on the unsliced formula; (4) Kani's concrete playback. Values are read as the actual
    parameters of common/sym.rs::zv_rec2 in execution order; values the slicer dropped (gaps in the call
    numbering) are don't-cares and become empty entries, which the native side reads as zero. The caller stops at
    the first candidate that reproduces."""
    name = h["name"]
    out = os.path.join(workdir, name + ".out")
    pick = next((f for f in failed if f["cls"] == "assertion"), failed[0])
    base = ["cbmc", "--no-malloc-may-fail", "--no-undefined-shift-check", "--no-signed-overflow-check", "--nan-check",
            "--no-self-loops-to-assumptions", "--no-pointer-primitive-check", "--object-bits", "16"]
    if art["unwind"] is not None:
        base += ["--unwind", str(art["unwind"])]
    base += art.get("cbmc_extra", h.get("cbmc", [])) + ["--sat-solver", "cadical"]
    jpath = os.path.join(workdir, name + ".trace.json")

    def aligned(tv):
        vals, expect = [], 1
        for seq, b in tv:
            while expect < seq:      # value sliced away: don't-care
                vals.append([])
                expect += 1
            vals.append(b)
            expect = seq + 1
        return vals

    seen = []
    for source in ("deciding-run trace", "sliced trace", "unsliced trace"):
        if source == "deciding-run trace":
            tv = _trace_values(os.path.join(workdir, name + ".cbmc.json"), pick["pid"])
        else:
            cb = base + (["--slice-formula"] if source == "sliced trace" else []) + [out, "--trace", "--json-ui", "--property", pick["pid"]]
            # building the trace needs noticeably more memory than deciding the formula: give it headroom
            run_stage(name + "#trace", cb, jpath, cap_t, max(cap_mem, 28))
            tv = _trace_values(jpath, pick["pid"])
        if tv is not None and (tv or source == "deciding-run trace"):
            # (an empty list from the deciding run's trace = the harness has no symbolic input at all)
            vals = aligned(tv)
            if vals not in seen:
                seen.append(vals)
                yield source, vals
    vals = concrete_playback(h, features)
    if vals is not None and vals not in seen:
        yield "kani concrete playback", vals


def concrete_playback(h, features):
    """Ask kani-driver for the concrete values of the counterexample."""
    cmd = ["cargo", "kani", "-Z", "stubbing", "-Z", "concrete-playback", "--concrete-playback=print", "--exact",
           "--harness", h["full"], "--target-dir", PLAYBACK_TD]
    if features:
        cmd += ["--features", ",".join(features)]
    with Lock(os.path.join(TARGET, "playback.lock")):
        # kani-driver runs its own, uncapped CBMC: cap the address space of the whole process group and the time
        p = subprocess.Popen(cmd, cwd=HARNESS, env=ENV, stdout=subprocess.PIPE, stderr=subprocess.STDOUT, text=True,
                             preexec_fn=_limits(28))
        try:
            txt, _ = p.communicate(timeout=1800)
        except subprocess.TimeoutExpired:
            try:
                os.killpg(p.pid, signal.SIGKILL)
            except Exception:
                pass
            p.wait()
            return None
    # Kani prints one block per satisfied cover AND per failed check; take the first one that belongs to a failed check
    m = None
    for cand in re.finditer(r"((?:[ \t]*///[^\n]*\n)*)[ \t]*#\[test\]\s*fn \w+\(\) \{\s*let concrete_vals: Vec<Vec<u8>> = vec!\[(.*?)\];", txt, re.S):
        if "Check for `cover`" in cand.group(1):
            continue
        m = cand
        break
    if not m:
        return None
    m = re.match(r"(.*)", m.group(2), re.S)
    vals = []
    for vm in re.finditer(r"vec!\[([\d,\s]*)\]", m.group(1)):
        s = vm.group(1).strip()
        vals.append([int(x) for x in s.split(",") if x.strip()] if s else [])
    return vals


def native_replay(h, replay_path, features, timeout=1500, miri=False):
    """Run the same harness function natively on the solver's values: dev, release and, for
    memory-safety counterexamples that a plain run does not trap, under Miri."""
    outs = {}
    base = ["test", "--lib", "--offline"]
    feat = ["--features", ",".join(features)] if features else []
    variants = [("dev", ["cargo"] + base + feat + ["--target-dir", NATIVE_TD]),
                ("release", ["cargo"] + base + ["--release"] + feat + ["--target-dir", NATIVE_TD])]
    if miri:
        variants = [("miri", ["cargo", "+nightly", "miri"] + base + feat + ["--target-dir", os.path.join(TARGET, "miri")])]
        timeout = 3000
    for label, cmd in variants:
        full = cmd + ["--", "--exact", h["full"], "--nocapture", "--test-threads=1"]
        env = dict(ENV, ZV_REPLAY=replay_path, RUST_BACKTRACE="0", MIRIFLAGS="-Zmiri-disable-isolation")
        with Lock(os.path.join(TARGET, "native.lock")):
            try:
                p = subprocess.run(full, cwd=HARNESS, env=env, stdout=subprocess.PIPE, stderr=subprocess.STDOUT,
                                   text=True, timeout=timeout, preexec_fn=_limits(16))
                rc, txt = p.returncode, p.stdout
            except subprocess.TimeoutExpired as e:
                rc, txt = -9, (e.stdout or "") + "\nTIMEOUT"
        tail = "\n".join(txt.splitlines()[-25:])
        if "ZV_ASSUME_FAILED" in txt or "ZV_REPLAY_EXHAUSTED" in txt or "ZV_NO_REPLAY" in txt:
            verdict = "not-driven"
        elif "could not compile" in txt:
            verdict = "build-failed"
        elif rc == 0 and "test result: ok. 1 passed" in txt:
            verdict = "passed"
        elif rc == 0:
            verdict = "not-run"
        elif label == "miri" and "Undefined Behavior" not in txt:
            verdict = "miri-error"
        else:
            verdict = "reproduced"
        outs[label] = dict(verdict=verdict, rc=rc, tail=tail[-1500:])
    return outs


# ----------------------------------------------------------------------------- main
def main():
    ap = argparse.ArgumentParser()
    ap.add_argument("prop")
    ap.add_argument("--tier", default=os.environ.get("VERIF_TIER", "quick"), choices=["quick", "thorough", "probe"],
                    help="quick: harnesses of tier quick; thorough: quick + thorough; probe: only the harnesses of tier "
                         "probe (kept in the source with their measured cost, never run by a registered command)")
    ap.add_argument("--skip-quick", action="store_true", help="with --tier thorough: leave the quick harnesses out")
    ap.add_argument("--status-out", default=None, help="write {harness: [status, wall_s, reason]} as JSON to this file")
    ap.add_argument("--only", default=None, help="regular expression (re.search) on harness names")
    ap.add_argument("--replay", default=None, help="replay a recorded counterexample file natively")
    ap.add_argument("--jobs", type=int, default=int(os.environ.get("ZV_JOBS", str(min(NCPU, 14)))))
    ap.add_argument("--no-evidence", action="store_true")
    a = ap.parse_args()
    seed = int(os.environ.get("VERIF_SEED", "0") or 0)
    t_start = time.time()
    free_gb = shutil.disk_usage(TARGET if os.path.exists(TARGET) else VERIF).free / (1 << 30)
    if free_gb < 3:
        log(f"less than 3 GB of disk left ({free_gb:.1f} GB): refusing to run (results would be truncated)")
        return 2
    reg = load_registry()
    prop = a.prop.upper()

    if a.replay:
        rp = json.load(open(a.replay))
        h = reg[rp["harness"]]
        vp = a.replay + ".vals.json"
        json.dump(rp["values"], open(vp, "w"))
        outs = native_replay(h, vp, rp.get("features", []) or ["p_" + prop.lower()])
        for k, v in outs.items():
            log(f"replay[{k}]: {v['verdict']} rc={v['rc']}")
            log(v["tail"])
        if any(v["verdict"] == "reproduced" for v in outs.values()):
            log(f"VIOLATION property={prop} replay={a.replay}")
            return 1
        return 0

    kfs = [k for k in load_known_findings() if k["property"] == prop]
    open_kf = {k["id"]: k for k in kfs if k.get("status") == "open"}
    features = sorted("kf_" + k for k in open_kf) + ["p_" + prop.lower()]

    hs = [h for h in reg.values() if h["prop"] == prop]
    if a.tier == "quick":
        hs = [h for h in hs if h["tier"] == "quick"]
    elif a.tier == "thorough":
        hs = [h for h in hs if h["tier"] == "thorough" or (h["tier"] == "quick" and not a.skip_quick)]
    else:
        hs = [h for h in hs if h["tier"] == "probe"]
    # a twin harness runs only while its finding is listed as open
    hs = [h for h in hs if not ("twin" in h["flags"] and h["kf"] not in open_kf)]
    if a.only:
        hs = [h for h in hs if re.search(a.only, h["name"])]
    if not hs:
        log(f"no harness registered for {prop} at tier {a.tier}")
        return 2
    # VERIF_SEED only permutes scheduling order (the solver verdict is seed-independent)
    import random
    random.Random(seed).shuffle(hs)
    hs.sort(key=lambda h: -(h["cap"] or 0))

    # one work dir per invocation (concurrent runs of the same property must not share files);
    # stale dirs of finished invocations are pruned
    wroot = os.path.join(TARGET, "work")
    os.makedirs(wroot, exist_ok=True)
    for d in os.listdir(wroot):
        m = re.match(r".*-(\d+)$", d)
        if m and not os.path.exists(f"/proc/{m.group(1)}"):   # work dir of a run that is gone (any property)
            shutil.rmtree(os.path.join(wroot, d), ignore_errors=True)
    workdir = os.path.join(wroot, f"{prop}-{a.tier}-{os.getpid()}")
    shutil.rmtree(workdir, ignore_errors=True)
    os.makedirs(workdir)
    log(f"[{prop}] tier={a.tier} harnesses={len(hs)} features={features} jobs={a.jobs}")
    arts, build_s = kani_codegen(hs, features, workdir)
    if arts is None:
        return 2
    log(f"[{prop}] codegen from /repo working tree: {build_s:.1f}s, {len(arts)} goto programs")
    missing = [h["name"] for h in hs if h["name"] not in arts]
    if missing:
        log("harnesses missing after codegen: " + ", ".join(missing))
        return 2

    caps = CAPS["thorough" if a.tier == "probe" else a.tier]
    stop = threading.Event()
    wd = threading.Thread(target=mem_watchdog, args=(stop,), daemon=True)
    wd.start()
    results = {}

    def mem_available_gb():
        try:
            return int(re.search(r"MemAvailable:\s+(\d+)", open("/proc/meminfo").read()).group(1)) / (1 << 20)
        except Exception:
            return 1e9

    def job(h):
        # admission control: do not start another CBMC while the machine could not absorb one more
        # job growing to its cap (a job already running is never delayed, so this cannot deadlock)
        waited = 0
        while waited < 1800:
            with RUNNING_LOCK:
                busy = len(RUNNING)
            if busy == 0 or mem_available_gb() > min(caps["mem_gb"], 16) + 4:
                break
            time.sleep(5)
            waited += 5
        r = verify_one(h, arts[h["name"]], workdir, h["cap"] or caps["time"], caps["mem_gb"])
        log(f"  {r['status']:<14} {h['name']:<44} {r['wall_s']:7.1f}s solver={r['solver_s']:.1f}s "
            f"vccs={r['vccs_remaining']}/{r['vccs']} sat={r['sat_vars']}v/{r['sat_clauses']}c {r['reason'][:120]}")
        return r

    with ThreadPoolExecutor(max_workers=a.jobs) as ex:
        for h, r in zip(hs, ex.map(job, hs)):
            results[h["name"]] = r
    # jobs the watchdog had to kill (machine short of memory while many ran at once) get a second,
    # solitary run: one at a time they have the whole machine
    for h in hs:
        if results[h["name"]]["reason"].startswith("killed by the runner's watchdog"):
            log(f"  re-running {h['name']} alone")
            results[h["name"]] = job(h)
    stop.set()

    # ---- interpret
    violations, unconfirmed, kf_lines, replays = [], [], [], 0
    replay_dir = os.path.join(EVIDENCE, "replay")
    for h in hs:
        r = results[h["name"]]
        if "twin" in h["flags"]:
            kf = open_kf[h["kf"]]
            if r["status"] == "counterexample":
                log(f"  known-finding twin {h['name']} still fails: " + "; ".join(f"{f['cls']}: {f['desc'][:90]} @ {f['loc'][:80]}" for f in r["failed"][:2]))
                kf_lines.append(f"KNOWN-FINDING: property={prop} {kf['what']} [{kf['id']}]")
                r["status"] = "known-finding-confirmed"
            elif r["status"] == "discharged":
                r["status"] = "known-finding-absent"
                log(f"  note: twin {h['name']} found no counterexample: finding {kf['id']} no longer present")
            continue
        if r["status"] != "counterexample":
            continue
        os.makedirs(replay_dir, exist_ok=True)
        log(f"  counterexample in {h['name']}: " + "; ".join(f"{f['cls']}: {f['desc'][:100]} @ {f['loc']}" for f in r["failed"][:4]))
        rp = os.path.join(replay_dir, f"{h['name']}.json")
        vpath = rp + ".vals.json"
        # memory-safety failures (out-of-bounds pointer arithmetic, dangling/deallocated accesses) rarely trap in a
        # plain native run: if ANY failed check is of that kind and nothing reproduced, ask Miri
        memsafe = any(f["cls"] in MEMSAFE_CLASSES or "dereference" in f["desc"] or "deallocated" in f["desc"]
                      or "same allocation" in f["desc"] for f in r["failed"])
        outs, tried = None, 0
        arts[h["name"]]["cbmc_extra"] = r.get("cbmc_extra", h.get("cbmc", []))
        for source, vals in value_candidates(h, arts[h["name"]], workdir, r["failed"], caps["time"], caps["mem_gb"], features):
            tried += 1
            json.dump(dict(harness=h["name"], property=prop, features=features, values=vals, values_from=source,
                           failed=r["failed"][:8], targets=h["targets"], bounds=h["bounds"]), open(rp, "w"), indent=1)
            json.dump(vals, open(vpath, "w"))
            outs = native_replay(h, vpath, features)
            replays += 1
            if memsafe and not any(v["verdict"] == "reproduced" for v in outs.values()):
                outs.update(native_replay(h, vpath, features, miri=True))
            if any(v["verdict"] == "reproduced" for v in outs.values()):
                break
            log(f"  values from the {source} did not reproduce: {({k: v['verdict'] for k, v in outs.items()})}")
        if outs is None:
            r["replay"] = "playback-extraction-failed"
            unconfirmed.append(h["name"])
            continue
        r["replay"] = {k: v["verdict"] for k, v in outs.items()}
        r["replay_file"] = rp
        log(f"  native replay {h['name']}: {r['replay']}")
        if any(v["verdict"] == "reproduced" for v in outs.values()):
            violations.append((h["name"], rp))
        elif all(f["cls"] in MEMSAFE_CLASSES or "dereference" in f["desc"] or "deallocated" in f["desc"] for f in r["failed"]) \
                and "memsafe_by_reading" in h["flags"]:
            # memory-safety UB that a native run does not trap; harness is flagged as triaged by reading
            violations.append((h["name"], rp))
        else:
            unconfirmed.append(h["name"])

    n_obl = sum(1 for h in hs if "twin" not in h["flags"])
    discharged = [h for h in hs if results[h["name"]]["status"] == "discharged"]
    inconclusive = [h for h in hs if results[h["name"]]["status"] == "inconclusive"]
    wall = time.time() - t_start

    # harnesses that decided on the tree the committed baseline was recorded on but do not decide now: the exit
    # code cannot flag this (there is no counterexample), so it is at least said out loud and put into the evidence
    regressed = []
    try:
        base = json.load(open(os.path.join(VERIF, "run", "baseline_status.json")))
    except Exception:
        base = {}
    for h in hs:
        r = results[h["name"]]
        if base.get(h["name"]) == "discharged" and r["status"] == "inconclusive":
            regressed.append(h["name"])
            log(f"NOTE {h['name']} decided on the baseline tree but is inconclusive now ({r['reason'][:100]}): "
                f"its part of {prop} is NOT decided by this run")
    if a.status_out:
        json.dump({h["name"]: [results[h["name"]]["status"], round(results[h["name"]]["wall_s"]), results[h["name"]]["reason"][:160]]
                   for h in hs}, open(a.status_out, "w"), indent=1)
    if not a.no_evidence:
        write_evidence(prop, a.tier, seed, hs, results, arts, discharged, inconclusive, violations, unconfirmed,
                       kf_lines, replays, build_s, wall, features, caps)

    # keep the disk clean: goto programs always go, CBMC output only stays for harnesses that need a look
    for h in hs:
        st = results[h["name"]]["status"]
        for suf in (".out", ".symtab.out", ".prep.log") + ((".cbmc.json", ".trace.json") if st == "discharged" else ()):
            try:
                os.remove(os.path.join(workdir, h["name"] + suf))
            except OSError:
                pass
        # CBMC's verbose output of a harness that hit a cap can run to gigabytes: keep it only while it is small
        for suf in (".cbmc.json", ".trace.json"):
            fp = os.path.join(workdir, h["name"] + suf)
            try:
                if os.path.getsize(fp) > (64 << 20):
                    os.remove(fp)
            except OSError:
                pass

    for l in kf_lines:
        log(l)
    for n in inconclusive:
        log(f"INCONCLUSIVE {n['name']}: {results[n['name']]['reason'][:200]}")
    log(f"[{prop}] obligations={n_obl} discharged={len(discharged)} inconclusive={len(inconclusive)} "
        f"counterexamples={len(violations) + len(unconfirmed)} wall={wall:.0f}s")
    if violations:
        for n, rp in violations:
            log(f"VIOLATION property={prop} replay={rp}")
        return 1
    if unconfirmed:
        for n in unconfirmed:
            log(f"UNCONFIRMED counterexample in {n}: did not reproduce natively (encoding/stub problem) - infrastructure error")
        return 2
    if len(discharged) < 1:
        log("nothing was discharged - infrastructure error")
        return 2
    return 0


def write_evidence(prop, tier, seed, hs, results, arts, discharged, inconclusive, violations, unconfirmed, kf_lines,
                   replays, build_s, wall, features, caps):
    harn = []
    for h in hs:
        r = results[h["name"]]
        harn.append(dict(
            harness=h["name"], functions_encoded=h["targets"], bounds=h["bounds"], oracle=h["oracle"],
            unwind=h["unwind"], stubs=h["stubs"], flags=h["flags"], extra_cbmc_args=h.get("cbmc", []), status=r["status"], reason=r["reason"],
            cbmc_properties_checked=r.get("checked_properties"), vccs_generated=r["vccs"], vccs_after_simplification=r["vccs_remaining"],
            sat_variables=r["sat_vars"], sat_clauses=r["sat_clauses"], program_steps=r["steps"],
            solver_seconds=round(r["solver_s"], 2), symex_seconds=r["symex_s"], wall_seconds=round(r["wall_s"], 1),
            covers=r["covers"], failed=r["failed"][:6], replay=r.get("replay")))
    n_obl = sum(1 for h in hs if "twin" not in h["flags"])
    stubs = sorted({s for h in hs for s in h["stubs"]})
    ev = dict(
        property_id=prop, tier=tier, seed=seed, level="model_checking",
        coverage=dict(
            evaluations=len(hs),
            distinct_nontrivial=len(discharged),
            rule="one evaluation = one solver query (Kani->CBMC->CaDiCaL) over one harness of the real code with symbolic inputs; "
                 "a harness counts as distinct and non-trivial only if it was discharged (unsat, unwinding assertions passed) AND every "
                 "kani::cover! reachability witness in it was SATISFIED (non-vacuous); harness names are unique",
            obligations=n_obl, discharged=len(discharged), inconclusive=len(inconclusive),
            traces_validated_against_impl=replays,
            queries_discharged=len(discharged),
            solver_seconds_total=round(sum(r["solver_s"] for r in results.values()), 1),
            cbmc_properties_checked_total=sum(r.get("checked_properties") or 0 for r in results.values()),
            sat_variables_total=sum(r["sat_vars"] or 0 for r in results.values()),
            sat_clauses_total=sum(r["sat_clauses"] or 0 for r in results.values()),
            codegen_seconds=round(build_s, 1),
            exhaustive=False,
            explanation="bounded model checking of the implementation: each harness holds for EVERY value of its symbolic inputs inside "
                        "the stated shape/unwind bound; nothing is claimed outside the bounds listed per harness",
            known_findings=kf_lines,
            caps=dict(seconds=caps["time"], mem_gb=caps["mem_gb"]),
            checker_cmd=f"run/check.py {prop} --tier {tier}",
            trusted_base=["Kani 0.68 MIR->goto translation", "CBMC 6.11 symex + CaDiCaL", "stubs: " + ", ".join(stubs)],
            samples=harn[:6] if len(harn) > 6 else harn,
            harnesses=harn,
        ),
        assumptions=[
            "bounds: each harness states its own shapes (lengths, widths, op counts) and unwind; outside them nothing is claimed",
            "stubs replaced through kani -Z stubbing: " + (", ".join(stubs) if stubs else "none"),
            "CBMC sequential-consistency, no-malloc-failure model; drop glue of error values skipped with mem::forget",
            "kf features enabled (region of a listed known finding assumed away in the main query): " + (", ".join(features) or "none"),
        ],
        wall_s=round(wall, 1),
        violations=len(violations),
    )
    os.makedirs(EVIDENCE, exist_ok=True)
    json.dump(ev, open(os.path.join(EVIDENCE, prop + ".json"), "w"), indent=1)


if __name__ == "__main__":
    sys.exit(main())

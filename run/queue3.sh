#!/bin/bash
# third evaluation queue (worktree head3): pending re-evaluations and the new seeds
cd /verif
while ps -eo args | grep -v grep | grep -q "seed_eval.py /tmp/mut/head3"; do sleep 20; done
ev() { echo "### $1 $2 $3 $4 $5 $6"; ZV_JOBS=4 python3 run/seed_eval.py /tmp/mut/head3 /verif/seeded/$1/patch.diff $2 $3 $4 $5 $6 2>&1 | tail -n 8; }
ev c10-m2 C10 --only "valvec32_tracked_push_clone"
ev c07-m1 C07 --only "bump"
ev c15-m4 C15 --only "c15_varint_decode"
ev c15-m5 C15 --only "c15_hex"
ev c15-m6 C15 --only "smartptr_backref"
ev c15-m7 C15 --only "c15_huffman_tree"
ev c20-m4 C20 --only "faststr_long"
ev c13-m4 C13 --only "prefixfree"
ev c13-m5 C13 --only "complex_batch"
ev c15-m1 C15 --only "c15_vie_group_seq_u64_n3"

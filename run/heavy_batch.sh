#!/bin/bash
# one heavy harness at a time with the thorough caps, to find out what is within reach on an idle machine
cd /verif
run() { ZV_JOBS=1 ZV_MEM_GB=36 ZV_CAP_S=2700 python3 run/check.py $1 --tier thorough --only "$2" --no-evidence 2>&1 | grep -E "discharged|counterexample|inconclusive|native replay|VIOLATION|UNCONFIRMED" | cut -c1-260; }
for spec in "C07 c07_lockfree_class144$" "C18 c18_reach_w1_n2_bal$" "C18 c18_q_push2_bal_steal$" "C06 c06_zhm_default_insert_get$" "C17 c17_lru_cap1_evict$" "C05 c05_louds_111_remove$" "C03 c03_mem_put_put_remove$" "C04 c04_" ; do
  set -- $spec
  echo "### $(date +%H:%M) $1 $2"; run $1 "$2"
done

#!/bin/bash
cd /verif
run/seed_confirm.sh /tmp/mut/m06a 1 c06-m1 C06 small_map
run/seed_confirm.sh /tmp/mut/m06a 2 c06-m2 C06 hash_map
run/seed_confirm.sh /tmp/mut/m06a 3 c06-m3 C06 hash_map
run/seed_confirm.sh /tmp/mut/m06a 4 c06-m4 C06 gold_hash_idx
rm -rf /tmp/mut/m06a/target
ev() { echo "### $1 $2 $3 $4 $5 $6"; ZV_JOBS=3 python3 run/seed_eval.py /tmp/mut/head3 /verif/seeded/$1/patch.diff $2 $3 $4 $5 $6 2>&1 | tail -n 8; }
ev c06-m1 C06
ev c06-m2 C06
ev c06-m3 C06
ev c06-m4 C06

#!/usr/bin/env python3
"""Moves the thorough-only harnesses that did not decide within the sweep caps (time / memory) to the probe tier.
usage: apply_sweep.py C15 C09 ...   (reads logs/sweep/<prop>.json, edits harness/src/*.rs in place)"""
import json, re, sys, glob
moved, other = [], []
src = {f: open(f).read() for f in glob.glob('/verif/harness/src/*.rs')}
for prop in sys.argv[1:]:
    d = json.load(open(f'/verif/logs/sweep/{prop}.json'))
    for name, (st, wall, reason) in d.items():
        if st == 'discharged' or st.startswith('known-finding'):
            continue
        if not ('time cap' in reason or 'out of memory' in reason or 'watchdog' in reason or 'no result list (rc=6' in reason):
            other.append((name, st, reason)); continue
        done = False
        for f, txt in src.items():
            # family instance line:  fam!(name, thorough, ...
            new, n = re.subn(r'(\(\s*%s,\s*)thorough(\s*,)' % re.escape(name), r'\1probe\2', txt)
            if n == 0:
                # explicit block: name: X, prop: .., tier: thorough,
                new, n = re.subn(r'(name:\s*%s,\s*\n\s*prop:[^\n]*\n\s*tier:\s*)thorough' % re.escape(name), r'\1probe', txt)
            if n:
                src[f] = new; moved.append((name, wall, reason[:50])); done = True; break
        if not done:
            other.append((name, st, 'NOT FOUND IN SOURCE: ' + reason))
for f, txt in src.items():
    if txt != open(f).read():
        open(f, 'w').write(txt)
print(f"moved to probe: {len(moved)}")
for o in other: print("LOOK:", o)

#!/usr/bin/env python3
"""Records which harnesses decided on the current (unchanged) tree: run/baseline_status.json, from evidence/*.json."""
import json, glob, os
out = {}
for f in sorted(glob.glob('/verif/evidence/C*.json')):
    ev = json.load(open(f))
    for h in ev.get("coverage", {}).get("harnesses", []) or ev.get("harnesses", []):
        out[h["harness"]] = h["status"]
json.dump(out, open('/verif/run/baseline_status.json', 'w'), indent=0, sort_keys=True)
print(len(out), "harness statuses recorded")

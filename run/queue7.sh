#!/bin/bash
cd /verif
# confirmations (native builds) first, then evaluations on head3
run/seed_confirm.sh /tmp/mut/m12b 1 c12-m3 C12 algorithms::
run/seed_confirm.sh /tmp/mut/m12b 2 c12-m4 C12 algorithms::
run/seed_confirm.sh /tmp/mut/m12b 3 c12-m5 C12 algorithms::
rm -rf /tmp/mut/m12b/target
run/seed_confirm.sh /tmp/mut/m04b 1 c04-m3 C04 succinct::
run/seed_confirm.sh /tmp/mut/m04b 2 c04-m4 C04 succinct::
run/seed_confirm.sh /tmp/mut/m04b 3 c04-m5 C04 succinct::
rm -rf /tmp/mut/m04b/target
run/seed_confirm.sh /tmp/mut/m01a 1 c01-m1 C01 entropy::
run/seed_confirm.sh /tmp/mut/m01a 2 c01-m2 C01 entropy::
run/seed_confirm.sh /tmp/mut/m01a 3 c01-m3 C01 entropy::
rm -rf /tmp/mut/m01a/target
ev() { echo "### $1 $2 $3 $4 $5 $6"; ZV_JOBS=3 python3 run/seed_eval.py /tmp/mut/head3 /verif/seeded/$1/patch.diff $2 $3 $4 $5 $6 2>&1 | tail -n 8; }
ev c12-m3 C12
ev c12-m4 C12
ev c12-m5 C12
ev c04-m3 C04
ev c04-m4 C04
ev c04-m5 C04
ev c01-m1 C01
ev c01-m2 C01
ev c01-m3 C01

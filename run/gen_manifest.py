#!/usr/bin/env python3
"""Regenerates /verif/MANIFEST.json from the table below plus the harness registry."""
import json, os, sys
sys.path.insert(0, os.path.dirname(os.path.abspath(__file__)))
from check import load_registry, VERIF

TITLES = {l["id"]: l["title"] for l in map(json.loads, open(os.path.join(VERIF, "properties.jsonl")))}

# property -> (level text, level note); only properties with >= 2 quick harnesses are claimed
SCOPE = {
 "C01": "dictionary coder round trip on 0-1 symbolic bytes, decoder lemmas for literal + overlapping back-reference copies, rANS encoder with an empty table (quick); one FSE encode/decode step lemma on a concrete 13-symbol table for every byte and every start-up state (thorough); rANS/FSE/Huffman table construction in general, the other state windows and whole-message round trips are beyond the caps and not claimed",
 "C02": "bit-level Match encode/decode round trip for all 8 variants with symbolic fields (incl. the variable-length format switches and the top of the Far3Long range) and BitWriter/BitReader for 6 width triples; sequence decoding (open known finding), compressor-layer framing and PA-Zip are not claimed",
 "C04": "rank1/rank0/get/select1/select0/len/count_ones against the popcount-prefix definition for BitVector, IL256 (cache off), SE256/SE512 (tables off), Simple, MixedIL256, Few, trivial and the scalar/BMI2 bulk entry points, 1-2 symbolic words at block boundaries; select caches/tables ON, adaptive and vector kernels are not claimed",
 "C06": "SmallMap<u8,u8> in its inline mode (<= 4 entries): every history of 2 operations from {insert, remove, get, get_mut, contains_key} on symbolic keys and values, and every single operation from a map that already holds 2 or 3 entries, against an array model (returned values, len, lookup of an arbitrary key, iteration yields each live entry exactly once); ZiporaHashMap in all its storage strategies, GoldHashMap, the string-keyed maps and promotion of SmallMap to the large map do not finish within the caps (36 GB / 45 min for one insert+get) and are NOT claimed",
 "C07": "BumpAllocator for every size and 7 alignments, MemoryPool alloc/free/reuse, LockFreeMemoryPool refusal of huge sizes; LockFreeMemoryPool size-class histories, FixedCapacityMemoryPool and the other pools do not decide within the caps (probe tier) and are not claimed",
 "C08": "Treiber stack of SecureMemoryPool: one operation of thread A with up to K complete operations of thread B at each of its 4 schedule points (fire-once nested interference), also under an allocator model that recycles freed node addresses (ABA); lock-free pool fast bins take ~20 min per instance (thorough or probe tier); weak memory and non-nested schedules are not claimed",
 "C09": "UintVecMin0 set/get for 33 bit widths 0..64, refusal of out-of-range reads, ZipIntVec incl. the top of usize, IntVec small datasets (5 element types), UintVector push; constructors whose width depends on symbolic data, SortedUintVec and bit-packed UintVector builds are beyond the caps",
 "C10": "FastVec, ValVec32, FixedCircularQueue, AutoGrowCircularQueue against array models for 2-6 symbolic operations with drop counting, incl. wrapped rings, bulk ops, clone and clear; string vectors, MmapVec and longer histories are not claimed",
 "C11": "all 13 sorted-sequence set operations on 2x2/3x3 inputs vs their definition and each other, two-way merges, loser tree and heap multiway merge of <= 2 runs, radix sort with 4-bit digits on 2 elements, AdvancedRadixSort insertion path incl. string key ties; wide-digit radix passes, key-value sort and hierarchical merges only in the thorough tier",
 "C12": "DC3, DivSufSort-style, Larsson-Sadakane and adaptive construction on texts of <= 3 symbolic bytes, LCP, BWT and pattern search for 1-2 byte patterns; SA-IS only on 4 concrete texts (regression witnesses of the repaired construction incl. its recursive branch); SA-IS on symbolic input and longer texts are beyond the caps",
 "C13": "VarInt for all u64/i64 and concatenated encodings, 7 alternative strategies for single values and short sequences per byte-width class (incl. values the wire formats cannot represent), DataInput/DataOutput primitives, length-prefixed data, endian conversion, tuple/Option/Vec serialisation",
 "C14": "bit-manipulation helpers on the scalar and the BMI2 tier (PDEP/PEXT/BZHI/CRC32 replaced by SDM-definition models) vs loop definitions for symbolic words, CRC32C vs the bitwise Castagnoli definition incl. incremental use, hex, base64 decoding of 4 characters, UTF-8 validation of 1-4 bytes vs core::str::from_utf8 on every dispatch arm, SimdMemOps on short slices; real vector kernels have no ISA model and are not claimed",
 "C15": "21 parsers (varint family, integer-codec variants, hex, base64, BitReader/decode_match, DataInput length prefixes, complex-type decoders, Rc/Arc/Box decoders, HuffmanTree::deserialize of 1 byte) on fully symbolic inputs of 0-12 bytes: no panic, overflow, out-of-bounds access or unbounded loop, and every allocation <= 64*N + 4096 bytes; multi-entry Huffman tables, dictionary / LZ77 / PA-Zip decompressors, blob-store loaders and the FFI layer are beyond the caps",
 "C16": "VersionManager writer exclusion, counter consistency and min_version <= live token versions under fire-once interference at 8 schedule points (K = 2), LazyFreeList with ages in any order; token lifetime is an open known finding; weak memory and deeper nesting are not claimed",
 "C19": "MmapVec::<u32>::open on a 96-byte file image with a fully symbolic 80-byte header: whenever open succeeds every element the header vouches for lies inside the file; real file I/O, sync/crash ordering and the other file formats are not claimed",
 "C20": "decimal_strcmp/realnum_strcmp against exact values (operands <= 4 characters, and 20-digit operands at the u64 boundary), FastStr equality/order/prefix/suffix/find/hash vs the byte slice (<= 5x3 bytes, plus ==/cmp/compare/starts_with/common_prefix_len on 16-33-byte strings with symbolic bytes at 16/32-byte block edges), join, word and field splitting, SortedVecLexIterator with duplicates and empty strings; LineProcessor line reading, streaming iterators and Unicode case conversion are not claimed",
}
TEXT = {}
DEFAULT_TEXT = ("Bounded model checking of the real Rust code: every registered harness calls zipora's own functions on symbolic "
                "inputs (kani::any) of a concrete shape; Kani compiles /repo's working tree to a CBMC goto program on every run and "
                "CaDiCaL decides it. unsat = holds for every input value inside the stated shape/unwind bound; sat = counterexample, "
                "replayed natively (dev+release) before VIOLATION is printed. Bounds per harness are in evidence.coverage.harnesses.")
DEFAULT_NOTE = ("Trusted: Kani 0.68 MIR->goto translation, CBMC 6.11, CaDiCaL; the stubs named per harness (fmt::format, clock, CPUID, "
                "thread bookkeeping); mem::forget of error/containers at harness end. Nothing is claimed outside the listed shapes, "
                "unwind bounds and functions; see DESIGN.md section 4 for the 'out' list of this property.")

NOT_APPLICABLE = {  # property -> reason (measured; details in DESIGN.md section 7.3)
 "C03": "solver-based checking of the real code does not reach the blob stores: every store keeps its records in a std HashMap (MemoryBlobStore, SimpleZip dedup) or builds them through FastVec-backed builders (ZipOffsetBlobStoreBuilder, SortedUintVecBuilder), and CBMC does not finish symbolic execution of even the smallest history (c03_mem_put_put_remove: put, put, remove on concrete ids with 1-byte symbolic payloads: still in symex after 2700 s with a 36 GB cap; the quick-cap attempts of the other 15 harnesses ended the same way). No harness of this property ever returned a verdict, so there is no bound inside which a claim could be made; the harnesses are kept in harness/src/c03_blobstore.rs (tier probe)",
 "C05": "not reachable: the trie implementations (ZiporaTrie with LOUDS / Patricia / critical-bit / double-array strategies) build rank-select indexes, FastVec node pools and std HashMap caches on every insert; the smallest history tried (c05_louds_111_remove: three 1-byte keys and one removal) is still in symbolic execution after 2700 s with a 36 GB cap, and the two quick-cap harnesses time out at 600 s. No verdict was ever produced for this property",
 "C17": "not reachable: LruMap and the page/blob caches sit on std HashMap plus intrusive index lists; the smallest scenario (c17_lru_cap1_evict: capacity 1, two inserts, one lookup) does not leave symbolic execution in 2700 s with a 36 GB cap, and all 4 quick harnesses time out at 600 s. No verdict was ever produced for this property",
 "C18": "not reachable: Kani has no model of threads, so the scheduler is driven through the guarded hooks (work_stealing::verif_access) as a sequential interleaving of steps, but the per-worker queues are VecDeque<Box<dyn Task>> behind Arc<Mutex>: two tasks and four scripted operations give 35-41 M clauses (c18_q_push2_bal_steal), and the smallest reachability scenario (c18_reach_w1_n2_bal: one worker, two tasks) runs CaDiCaL out of memory at 36 GB after 1033 s (37 322 verification conditions). No verdict was ever produced; real multi-threaded schedules, timing and async wake-ups are outside bounded model checking of sequential code in any case",
}
# properties whose quick check currently runs green end to end on the unchanged tree (maintained by hand)
READY = set(l.strip() for l in open(os.path.join(VERIF, "run", "ready.txt")) if l.strip() and not l.startswith("#"))


def main():
    reg = load_registry()
    byprop = {}
    for h in reg.values():
        byprop.setdefault(h["prop"], []).append(h)
    checks, na = [], []
    for pid in sorted(TITLES):
        hs = byprop.get(pid, [])
        nq = sum(1 for h in hs if h["tier"] == "quick" and "twin" not in h["flags"])
        if pid in NOT_APPLICABLE or nq < 2 or pid not in READY:
            na.append(dict(property_id=pid, reason=NOT_APPLICABLE.get(
                pid, "harnesses for this property are not built yet (work in progress; see DESIGN.md section 4)")))
            continue
        text, note = TEXT.get(pid, (DEFAULT_TEXT, DEFAULT_NOTE))
        if pid in SCOPE:
            text = text + " Scope of the quick set: " + SCOPE[pid] + "."
        checks.append(dict(
            property_id=pid,
            quick_cmd=f"python3 run/check.py {pid} --tier quick",
            thorough_cmd=f"python3 run/check.py {pid} --tier thorough",
            evidence_file=f"evidence/{pid}.json",
            replay_cmd_template=f"python3 run/check.py {pid} --replay {{path}}",
            engine="kani-cbmc",
            level_claimed=dict(category="model_checking", text=text, design_ref=f"DESIGN.md section 4 ({pid})"),
            level_note=note,
            technique="bounded symbolic execution of the compiled Rust code (Kani 0.68 -> CBMC 6.11 -> CaDiCaL SAT), "
                      "symbolic inputs, unwinding assertions on, counterexamples replayed natively",
        ))
    hooks_commits = [l.strip() for l in open(os.path.join(VERIF, "run", "hook_commits.txt")) if l.strip()] \
        if os.path.exists(os.path.join(VERIF, "run", "hook_commits.txt")) else []
    man = dict(
        version=1,
        setup_cmd="python3 run/setup.py",
        hooks=dict(
            guard="cargo feature zipora_verif",
            enable="harness/Cargo.toml depends on zipora with features=[\"zipora_verif\"]; cargo kani builds /repo's working tree with it",
            baseline_off_cmd="cd /repo && cargo test --workspace --no-fail-fast --offline",
            source_commits=hooks_commits,
            add_only=True,
        ),
        engines=[dict(name="kani-cbmc", path="run/check.py", serves_properties=[c["property_id"] for c in checks],
                      kind_free_text="Kani 0.68 (rustc MIR -> goto) + CBMC 6.11 bounded model checker + CaDiCaL; harness crate /verif/harness "
                                     "with a path dependency on /repo; own scheduler, caps, result classification and native replay")],
        checks=checks,
        notes="All checks are bounded: see evidence.coverage.harnesses[*].bounds. Known genuine defects are listed in known_findings.json.",
        not_applicable=na,
    )
    json.dump(man, open(os.path.join(VERIF, "MANIFEST.json"), "w"), indent=1)
    print("claimed:", [c["property_id"] for c in checks], "n/a:", [x["property_id"] for x in na])


if __name__ == "__main__":
    main()

#!/usr/bin/env python3
"""Regenerates /verif/MANIFEST.json from the table below plus the harness registry."""
import json, os, sys
sys.path.insert(0, os.path.dirname(os.path.abspath(__file__)))
from check import load_registry, VERIF

TITLES = {l["id"]: l["title"] for l in map(json.loads, open(os.path.join(VERIF, "properties.jsonl")))}

# property -> (level text, level note); only properties with >= 2 quick harnesses are claimed
TEXT = {}
DEFAULT_TEXT = ("Bounded model checking of the real Rust code: every registered harness calls zipora's own functions on symbolic "
                "inputs (kani::any) of a concrete shape; Kani compiles /repo's working tree to a CBMC goto program on every run and "
                "CaDiCaL decides it. unsat = holds for every input value inside the stated shape/unwind bound; sat = counterexample, "
                "replayed natively (dev+release) before VIOLATION is printed. Bounds per harness are in evidence.coverage.harnesses.")
DEFAULT_NOTE = ("Trusted: Kani 0.68 MIR->goto translation, CBMC 6.11, CaDiCaL; the stubs named per harness (fmt::format, clock, CPUID, "
                "thread bookkeeping); mem::forget of error/containers at harness end. Nothing is claimed outside the listed shapes, "
                "unwind bounds and functions; see DESIGN.md section 4 for the 'out' list of this property.")

NOT_APPLICABLE = {}  # property -> reason
# properties whose quick check currently runs green end to end on the unchanged tree (maintained by hand)
READY = set(l.strip() for l in open(os.path.join(VERIF, "run", "ready.txt")) if l.strip() and not l.startswith("#"))


def main():
    reg = load_registry()
    byprop = {}
    for h in reg.values():
        byprop.setdefault(h["prop"], []).append(h)
    checks, na = [], []
    for pid in sorted(TITLES):
        hs = byprop.get(pid, [])
        nq = sum(1 for h in hs if h["tier"] == "quick" and "twin" not in h["flags"])
        if pid in NOT_APPLICABLE or nq < 2 or pid not in READY:
            na.append(dict(property_id=pid, reason=NOT_APPLICABLE.get(
                pid, "harnesses for this property are not built yet (work in progress; see DESIGN.md section 4)")))
            continue
        text, note = TEXT.get(pid, (DEFAULT_TEXT, DEFAULT_NOTE))
        checks.append(dict(
            property_id=pid,
            quick_cmd=f"python3 run/check.py {pid} --tier quick",
            thorough_cmd=f"python3 run/check.py {pid} --tier thorough",
            evidence_file=f"evidence/{pid}.json",
            replay_cmd_template=f"python3 run/check.py {pid} --replay {{path}}",
            engine="kani-cbmc",
            level_claimed=dict(category="model_checking", text=text, design_ref=f"DESIGN.md section 4 ({pid})"),
            level_note=note,
            technique="bounded symbolic execution of the compiled Rust code (Kani 0.68 -> CBMC 6.11 -> CaDiCaL SAT), "
                      "symbolic inputs, unwinding assertions on, counterexamples replayed natively",
        ))
    hooks_commits = [l.strip() for l in open(os.path.join(VERIF, "run", "hook_commits.txt")) if l.strip()] \
        if os.path.exists(os.path.join(VERIF, "run", "hook_commits.txt")) else []
    man = dict(
        version=1,
        setup_cmd="python3 run/setup.py",
        hooks=dict(
            guard="cargo feature zipora_verif",
            enable="harness/Cargo.toml depends on zipora with features=[\"zipora_verif\"]; cargo kani builds /repo's working tree with it",
            baseline_off_cmd="cd /repo && cargo test --workspace --no-fail-fast --offline",
            source_commits=hooks_commits,
            add_only=True,
        ),
        engines=[dict(name="kani-cbmc", path="run/check.py", serves_properties=[c["property_id"] for c in checks],
                      kind_free_text="Kani 0.68 (rustc MIR -> goto) + CBMC 6.11 bounded model checker + CaDiCaL; harness crate /verif/harness "
                                     "with a path dependency on /repo; own scheduler, caps, result classification and native replay")],
        checks=checks,
        notes="All checks are bounded: see evidence.coverage.harnesses[*].bounds. Known genuine defects are listed in known_findings.json.",
        not_applicable=na,
    )
    json.dump(man, open(os.path.join(VERIF, "MANIFEST.json"), "w"), indent=1)
    print("claimed:", [c["property_id"] for c in checks], "n/a:", [x["property_id"] for x in na])


if __name__ == "__main__":
    main()

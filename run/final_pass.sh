#!/bin/bash
# evidence-producing quick run of every claimed property, one after the other (idle machine)
cd /verif
for p in $(grep -v '^#' run/ready.txt | sort -u); do
  ZV_JOBS=14 python3 run/check.py $p > logs/final_$p.log 2>&1
  echo "$p rc=$? $(tail -n 1 logs/final_$p.log | cut -c1-140)"
done

#!/bin/bash
# evidence-producing run of every claimed property, one after the other
# usage: final_pass.sh [quick|thorough] [jobs]
cd /verif
tier=${1:-quick}; jobs=${2:-14}
for p in $(grep -v '^#' run/ready.txt | sort -u); do
  ZV_JOBS=$jobs python3 run/check.py $p --tier $tier > logs/final_${tier}_$p.log 2>&1; rc=$?
  echo "$(date +%H:%M) $p rc=$rc $(grep obligations= logs/final_${tier}_$p.log | tail -n 1 | cut -c1-140)"
done

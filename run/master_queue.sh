#!/bin/bash
# one thing at a time: evidence runs, then the seeded evaluations, then the heavy batch
cd /verif
echo "##### evidence runs"
for p in C02 C10 C11 C07 C06; do ZV_JOBS=12 python3 run/check.py $p > logs/$p.log 2>&1; echo "$p done: $(tail -n 1 logs/$p.log | cut -c1-120)"; done
echo "##### seed evaluations"
ev() { echo "### $1 $2 $3 $4 $5"; ZV_JOBS=12 python3 run/seed_eval.py /tmp/mut/head /verif/seeded/$1/patch.diff $2 $3 $4 $5 $6 2>&1 | tail -n 7; }
ev c15-m1 C15 --tier thorough --only "c15_vie_group_seq_u64_n3"
ev c10-m1 C10 --only "autoq"
ev c10-m2 C10 --only "valvec32"
ev c10-m3 C10 --only "fastvec"
ev c07-m1 C07 --only "bump"
ev c07-m3 C07 --only "lockfree_huge"
ev c02-m1 C02 --only "far3long"
ev c02-m2 C02 --only "switch2"
ev c02-m3 C02 --only "bitio"
ev c14-m1 C14 --only "bitops_count|bitops_select"
ev c14-m2 C14 --only "crc32c"
ev c14-m3 C14 --only "hex"
ev c14-m4 C14 --only "utf8"
ev c08-m2 C08 --only "lfpool_alloc_at202"
export ZV_MEM_GB=30 ZV_CAP_S=1800
ev c11-m1 C11 --tier thorough --only "interfast_3x1"
ev c11-m2 C11 --tier thorough --only "multiway_hier_k3"
ev c07-m2 C07 --tier thorough --only "fixedcap_hist_unaligned"
unset ZV_MEM_GB ZV_CAP_S
echo "##### heavy batch"
bash run/heavy_batch.sh

#!/bin/bash
cd /verif
run/seed_confirm.sh /tmp/mut/m15b 1 c15-m4 C15 io::var_int
run/seed_confirm.sh /tmp/mut/m15b 2 c15-m5 C15 string::hex
run/seed_confirm.sh /tmp/mut/m15b 3 c15-m6 C15 io::
run/seed_confirm.sh /tmp/mut/m15b 4 c15-m7 C15 entropy::huffman
rm -rf /tmp/mut/m15b/target
run/seed_confirm.sh /tmp/mut/m20b 1 c20-m4 C20 string::
run/seed_confirm.sh /tmp/mut/m20b 2 c20-m5 C20 string::
run/seed_confirm.sh /tmp/mut/m20b 3 c13-m4 C13 io::
run/seed_confirm.sh /tmp/mut/m20b 4 c13-m5 C13 io::
rm -rf /tmp/mut/m20b/target
